// C18 — automatic trust management (XEP-0450): BFS worker. Real QXmppAtmManager with in-memory storages inside a
// QXmppClient; every event is one synchronous call; a reference model is compared after every step.
#include "QXmppAtmManager.h"
#include "QXmppAtmTrustMemoryStorage.h"
#include "QXmppClient.h"
#include "QXmppConfiguration.h"
#include "QXmppE2eeMetadata.h"
#include "QXmppTask.h"
#include "QXmppMessage.h"
#include "QXmppTrustMessageElement.h"
#include "QXmppTrustMessageKeyOwner.h"
#include "vcommon.h"

using namespace verif;
using QXmpp::TrustLevel;

namespace {

const QString ENC = QStringLiteral("urn:xmpp:omemo:2");
const QString OWN = QStringLiteral("own@example.org");
const QStringList ACCOUNTS = { OWN, QStringLiteral("alice@example.org"), QStringLiteral("bob@example.org") };
// two keys per account
QByteArray keyOf(int account, int k) { return QByteArray::fromBase64(QByteArray("a2V5LQ==")) + QByteArray(1, char('A' + account)) + QByteArray::number(k + 1); }

struct OwnerEntry {
    int owner;
    QList<int> trust, distrust;   // key indexes of that owner
};
struct Content {
    QString name;
    QList<OwnerEntry> owners;
};

std::vector<Content> contents()
{
    std::vector<Content> c;
    const char *an[] = { "own", "alice", "bob" };
    for (int o = 0; o < 3; ++o) {
        c.push_back({ QStringLiteral("%1: trust k1").arg(QString::fromLatin1(an[o])), { { o, { 0 }, {} } } });
        c.push_back({ QStringLiteral("%1: distrust k1").arg(QString::fromLatin1(an[o])), { { o, {}, { 0 } } } });
        c.push_back({ QStringLiteral("%1: trust k2, distrust k1").arg(QString::fromLatin1(an[o])), { { o, { 1 }, { 0 } } } });
    }
    for (int o1 = 0; o1 < 3; ++o1) {
        for (int o2 = 0; o2 < 3; ++o2) {
            if (o1 != o2) {
                c.push_back({ QStringLiteral("%1: trust k1; %2: trust k1").arg(QString::fromLatin1(an[o1]), QString::fromLatin1(an[o2])), { { o1, { 0 }, {} }, { o2, { 0 }, {} } } });
            }
        }
    }
    return c;
}

struct Event {
    QString name;
    enum T { Manual, TrustMessage, FromThisDevice } type;
    int a = 0, b = 0, c = 0;   // Manual: account,key,auth(1)/distrust(0); TrustMessage: sender account, content
    int deviation = 0;
};

std::vector<Event> buildEvents()
{
    std::vector<Event> e;
    const char *an[] = { "own", "alice", "bob" };
    for (int a = 0; a < 3; ++a) {
        for (int k = 0; k < 2; ++k) {
            e.push_back({ QStringLiteral("manual authenticate %1.k%2").arg(QString::fromLatin1(an[a])).arg(k + 1), Event::Manual, a, k, 1 });
            e.push_back({ QStringLiteral("manual distrust %1.k%2").arg(QString::fromLatin1(an[a])).arg(k + 1), Event::Manual, a, k, 0 });
        }
    }
    const auto cs = contents();
    for (int s = 0; s < 3; ++s) {
        for (int c = 0; c < int(cs.size()); ++c) {
            // sender device key: own -> own.k2 (another own device), alice -> alice.k1, bob -> bob.k1
            e.push_back({ QStringLiteral("trust message from %1 [%2]").arg(QString::fromLatin1(an[s]), cs[size_t(c)].name), Event::TrustMessage, s, c, 0, 0 });
        }
    }
    e.push_back({ QStringLiteral("trust message from this very device [alice: trust k1]"), Event::FromThisDevice, 0, 3, 0, 1 });
    return e;
}

int senderKeyIndex(int account) { return account == 0 ? 1 : 0; }

struct Postponed {
    QByteArray senderKey;
    int owner, key;
    bool trust;
};

struct Model {
    TrustLevel level[3][2];
    QList<Postponed> postponed;
    QSet<QByteArray> redistrusted;   // don't-care: see distrust()
    Model()
    {
        for (auto &a : level) {
            for (auto &k : a) {
                k = TrustLevel::Undecided;
            }
        }
    }
    void firePostponed(const QByteArray &senderKey)
    {
        QList<Postponed> mine;
        for (const auto &p : std::as_const(postponed)) {
            if (p.senderKey == senderKey) {
                mine << p;
            }
        }
        // applied decisions are removed for every sender that asked for the same decision on the same key
        for (const auto &m : std::as_const(mine)) {
            for (int i = postponed.size() - 1; i >= 0; --i) {
                if (postponed[i].key == m.key && postponed[i].owner == m.owner && postponed[i].trust == m.trust) {
                    postponed.removeAt(i);
                }
            }
        }
        // authenticate first, then distrust (each only if it changes something)
        for (const auto &m : std::as_const(mine)) {
            if (m.trust) {
                authenticate(m.owner, m.key);
            }
        }
        for (const auto &m : std::as_const(mine)) {
            if (!m.trust) {
                distrust(m.owner, m.key);
            }
        }
    }
    void authenticate(int owner, int key)
    {
        if (level[owner][key] == TrustLevel::Authenticated) {
            return;
        }
        level[owner][key] = TrustLevel::Authenticated;
        firePostponed(keyOf(owner, key));
    }
    void distrust(int owner, int key)
    {
        if (level[owner][key] == TrustLevel::ManuallyDistrusted) {
            // distrusting a key that is distrusted already: the statement does not say whether decisions it has sent since are
            // discarded now or stay held back (they can only fire if the key is authenticated later); the implementation's choice
            // is adopted in compare()
            redistrusted.insert(keyOf(owner, key));
            return;
        }
        level[owner][key] = TrustLevel::ManuallyDistrusted;
        // decisions sent with this key are discarded
        for (int i = postponed.size() - 1; i >= 0; --i) {
            if (postponed[i].senderKey == keyOf(owner, key)) {
                postponed.removeAt(i);
            }
        }
    }
    void trustMessage(int senderAccount, const Content &c)
    {
        const int sk = senderKeyIndex(senderAccount);
        const bool authenticated = level[senderAccount][sk] == TrustLevel::Authenticated;
        QList<QPair<int, int>> auth, dis;
        for (const auto &o : c.owners) {
            const bool qualified = senderAccount == 0 || senderAccount == o.owner;
            if (!qualified) {
                continue;
            }
            for (int k : o.trust) {
                if (authenticated) {
                    auth << qMakePair(o.owner, k);
                } else {
                    addPostponed(keyOf(senderAccount, sk), o.owner, k, true);
                }
            }
            for (int k : o.distrust) {
                if (authenticated) {
                    dis << qMakePair(o.owner, k);
                } else {
                    addPostponed(keyOf(senderAccount, sk), o.owner, k, false);
                }
            }
        }
        for (const auto &a : std::as_const(auth)) {
            authenticate(a.first, a.second);
        }
        for (const auto &d : std::as_const(dis)) {
            distrust(d.first, d.second);
        }
    }
    void addPostponed(const QByteArray &senderKey, int owner, int key, bool trust)
    {
        for (auto &p : postponed) {
            if (p.senderKey == senderKey && p.owner == owner && p.key == key) {
                p.trust = trust;
                return;
            }
        }
        postponed.append({ senderKey, owner, key, trust });
    }
    QStringList postponedCanon() const
    {
        QStringList l;
        for (const auto &p : postponed) {
            l << QStringLiteral("%1>%2.%3=%4").arg(QString::fromLatin1(p.senderKey.toHex().right(6))).arg(p.owner).arg(p.key).arg(p.trust);
        }
        l.sort();
        return l;
    }
};

struct Exec {
    QXmppClient client;
    QXmppAtmTrustMemoryStorage storage;
    QXmppAtmManager *manager = nullptr;
    std::vector<Event> events = buildEvents();
    std::vector<Content> cs = contents();
    Model m;
    RunResult res;

    explicit Exec(bool toakafa)
    {
        client.configuration().setJid(QStringLiteral("own@example.org/thisdevice"));
        manager = new QXmppAtmManager(&storage);
        client.addExtension(manager);
        manager->setSecurityPolicy(ENC, toakafa ? QXmpp::Toakafa : QXmpp::NoSecurityPolicy);
        manager->setOwnKey(ENC, QByteArray("this-device-key"));
    }

    void violate(const QString &key, const QString &msg) { res.violations.append(violation(QStringLiteral("C18/") + key, msg)); }
    void witness(const char *k) { res.witness[QString::fromLatin1(k)] = res.witness.value(QString::fromLatin1(k)).toInt() + 1; }

    QXmppMessage buildMessage(int senderAccount, const Content &c, bool fromThisDevice)
    {
        QXmppTrustMessageElement el;
        el.setUsage(QStringLiteral("urn:xmpp:atm:1"));
        el.setEncryption(ENC);
        QList<QXmppTrustMessageKeyOwner> owners;
        for (const auto &o : c.owners) {
            QXmppTrustMessageKeyOwner ko;
            ko.setJid(ACCOUNTS[o.owner]);
            QList<QByteArray> t, d;
            for (int k : o.trust) {
                t << keyOf(o.owner, k);
            }
            for (int k : o.distrust) {
                d << keyOf(o.owner, k);
            }
            ko.setTrustedKeys(t);
            ko.setDistrustedKeys(d);
            owners << ko;
        }
        el.setKeyOwners(owners);
        QXmppMessage msg;
        msg.setFrom(fromThisDevice ? QStringLiteral("own@example.org/thisdevice") : ACCOUNTS[senderAccount] + QStringLiteral("/otherdevice"));
        msg.setTo(QStringLiteral("own@example.org/thisdevice"));
        msg.setTrustMessageElement(el);
        QXmppE2eeMetadata meta;
        meta.setSenderKey(keyOf(senderAccount, senderKeyIndex(senderAccount)));
        msg.setE2eeMetadata(meta);
        return msg;
    }

    template<typename T>
    static bool ready(QXmppTask<T> &t) { return t.isFinished(); }

    void step(int evId)
    {
        const Event &e = events[size_t(evId)];
        switch (e.type) {
        case Event::Manual: {
            auto t = manager->makeTrustDecisions(ENC, ACCOUNTS[e.a], e.c ? QList<QByteArray> { keyOf(e.a, e.b) } : QList<QByteArray> {}, e.c ? QList<QByteArray> {} : QList<QByteArray> { keyOf(e.a, e.b) });
            QCoreApplication::processEvents();
            if (!t.isFinished()) {
                violate(QStringLiteral("task-not-finished"), e.name);
            }
            if (e.c) {
                m.authenticate(e.a, e.b);
            } else {
                m.distrust(e.a, e.b);
            }
            witness("manual_decisions");
            break;
        }
        case Event::TrustMessage:
        case Event::FromThisDevice: {
            const auto msg = buildMessage(e.a, cs[size_t(e.b)], e.type == Event::FromThisDevice);
            const auto before = m.postponed.size();
            auto t = manager->handleMessage(msg);
            QCoreApplication::processEvents();
            if (!t.isFinished()) {
                violate(QStringLiteral("task-not-finished"), e.name);
            }
            if (e.type == Event::TrustMessage) {
                m.trustMessage(e.a, cs[size_t(e.b)]);
                witness("trust_messages");
                if (m.postponed.size() > before) {
                    witness("postponed");
                }
            } else {
                witness("own_device_messages");
            }
            break;
        }
        }
        compare(e.name);
    }

    void compare(const QString &ctx)
    {
        const char *an[] = { "own", "alice", "bob" };
        for (int a = 0; a < 3; ++a) {
            for (int k = 0; k < 2; ++k) {
                auto t = manager->trustLevel(ENC, ACCOUNTS[a], keyOf(a, k));
                const auto lvl = t.isFinished() ? t.result() : TrustLevel::Undecided;
                if (lvl != m.level[a][k]) {
                    const bool upgraded = lvl == TrustLevel::Authenticated;
                    violate(upgraded ? QStringLiteral("key-authenticated-without-authority") : QStringLiteral("trust-level-differs"),
                            QStringLiteral("%1: trust level of %2.k%3 is %4, reference model says %5").arg(ctx, QString::fromLatin1(an[a])).arg(k + 1).arg(int(lvl)).arg(int(m.level[a][k])));
                    return;
                }
            }
        }
        // postponed table
        QStringList impl;
        for (int a = 0; a < 3; ++a) {
            const QByteArray sk = keyOf(a, senderKeyIndex(a));
            auto t = storage.keysForPostponedTrustDecisions(ENC, { sk });
            const auto h = t.result();
            for (bool trust : { true, false }) {
                const auto mh = h.value(trust);
                for (auto it = mh.begin(); it != mh.end(); ++it) {
                    const int owner = ACCOUNTS.indexOf(it.key());
                    int key = -1;
                    for (int k = 0; k < 2; ++k) {
                        if (owner >= 0 && keyOf(owner, k) == it.value()) {
                            key = k;
                        }
                    }
                    impl << QStringLiteral("%1>%2.%3=%4").arg(QString::fromLatin1(sk.toHex().right(6))).arg(owner).arg(key).arg(trust);
                }
            }
        }
        impl.sort();
        for (int i = m.postponed.size() - 1; i >= 0; --i) {
            const auto &p = m.postponed[i];
            if (m.redistrusted.contains(p.senderKey) &&
                !impl.contains(QStringLiteral("%1>%2.%3=%4").arg(QString::fromLatin1(p.senderKey.toHex().right(6))).arg(p.owner).arg(p.key).arg(p.trust))) {
                m.postponed.removeAt(i);
                witness("redistrust_dont_care_resolved");
            }
        }
        m.redistrusted.clear();
        if (impl != m.postponedCanon()) {
            violate(QStringLiteral("postponed-decisions-differ"), QStringLiteral("%1: stored postponed decisions [%2], reference model [%3]").arg(ctx, impl.join(QLatin1Char(' ')), m.postponedCanon().join(QLatin1Char(' '))));
        }
    }

    std::vector<int> enabled() const
    {
        std::vector<int> en;
        if (!res.violations.isEmpty()) {
            return en;
        }
        for (int i = 0; i < int(events.size()); ++i) {
            en.push_back(i);
        }
        return en;
    }

    QString canon() const
    {
        QStringList l;
        for (int a = 0; a < 3; ++a) {
            for (int k = 0; k < 2; ++k) {
                l << QString::number(int(m.level[a][k]));
            }
        }
        return l.join(QLatin1Char(',')) + QStringLiteral(" | ") + m.postponedCanon().join(QLatin1Char(' '));
    }
};

}  // namespace

int main(int argc, char **argv)
{
    QCoreApplication app(argc, argv);
    Harness h;
    h.describe = [] {
        QJsonArray evs;
        const auto events = buildEvents();
        for (int i = 0; i < int(events.size()); ++i) {
            evs.append(QJsonObject { { QStringLiteral("id"), i }, { QStringLiteral("name"), events[size_t(i)].name }, { QStringLiteral("deviation"), events[size_t(i)].deviation } });
        }
        return QJsonObject { { QStringLiteral("property"), QStringLiteral("C18") }, { QStringLiteral("events"), evs } };
    };
    h.run = [](const QJsonObject &config, const std::vector<int> &history, bool) {
        Exec x(config.value(QStringLiteral("toakafa")).toBool());
        for (int ev : history) {
            x.step(ev);
            if (!x.res.violations.isEmpty()) {
                break;
            }
        }
        x.res.enabled = x.enabled();
        x.res.canon = x.canon();
        x.res.outcome = x.canon().section(QLatin1Char('|'), 0, 0);
        return x.res;
    };
    return workerMain(argc, argv, h);
}
