// C11 — carbon copies are unwrapped only when the outer stanza comes from the user's own bare JID.
// Complete product of outer sender x wrapper x inner message x structure x manager generation; fresh session per case.
#include "QXmppCarbonManager.h"
#include "QXmppCarbonManagerV2.h"
#include "QXmppMessage.h"
#include "clientrig.h"
#include "enumctx.h"

using namespace verif;

namespace {

enum Expect { MustUnwrap, MustNot, DontCare };

struct FromC {
    const char *name;
    QByteArray jid;   // "-" = attribute absent
    Expect e;
};
const FromC froms[] = {
    { "own-bare", "user@example.org", MustUnwrap },
    { "own-full", "user@example.org/r", MustNot },
    { "own-other-resource", "user@example.org/other", MustNot },
    { "own-bare-uppercase", "USER@EXAMPLE.ORG", DontCare },
    { "own-bare-mixedcase-domain", "user@Example.org", DontCare },
    { "own-bare-trailing-space", "user@example.org ", MustNot },
    { "own-bare-leading-space", " user@example.org", MustNot },
    { "own-bare-as-subdomain-prefix", "user@example.org.evil.net", MustNot },
    { "prefixed-local-part", "xuser@example.org", MustNot },
    { "lookalike-domain", "user@examp1e.org", MustNot },
    { "domain-only", "example.org", MustNot },
    { "empty", "", MustNot },
    { "absent", "-", MustNot },
    { "contact-bare", "contact@example.net", MustNot },
    { "contact-full", "contact@example.net/res", MustNot },
    { "own-bare-with-empty-resource", "user@example.org/", MustNot },
    // the sender is the contact; an attribute named 'from' in ANOTHER namespace carries the own bare JID (attribute spliced in through the quote)
    { "contact-plus-foreign-namespace-from-attribute", "contact@example.net/res' xmlns:x='urn:verif:x' x:from='user@example.org", MustNot },
};
const int NFROM = sizeof(froms) / sizeof(froms[0]);

const char *wrappers[] = { "sent", "received" };

struct Inner {
    const char *name;
    QByteArray xml;
};
const Inner inners[] = {
    { "contact-to-me", "<message xmlns='jabber:client' from='victim@example.net/x' to='user@example.org/other' type='chat' id='i1'><body>INNERBODY-A</body><thread>t1</thread></message>" },
    { "me-to-contact", "<message xmlns='jabber:client' from='user@example.org/other' to='victim@example.net' type='chat' id='i2'><body>INNERBODY-B &lt;tag&gt;</body><request xmlns='urn:xmpp:receipts'/></message>" },
    { "nested-carbon", "<message xmlns='jabber:client' from='user@example.org' to='user@example.org/r' id='i3'><body>INNERBODY-C</body><received xmlns='urn:xmpp:carbons:2'><forwarded xmlns='urn:xmpp:forward:0'>"
                       "<message xmlns='jabber:client' from='victim@example.net/x' to='user@example.org/other' type='chat'><body>INNERMOSTBODY</body></message></forwarded></received></message>" },
};
const int NINNER = 3;

enum Structure { WellFormed, ExtraOuterBody, NoForwarded, WrongForwardedNs, NoInnerMessage, TwoInnerMessages, BothWrappers, WrongCarbonNs, NSTRUCT };
const char *structNames[] = { "well-formed", "extra-outer-body", "no-forwarded", "forwarded-wrong-namespace", "no-inner-message", "two-inner-messages", "both-sent-and-received",
                              "carbon-wrong-namespace" };

enum Config { V1, V2, Both, NCONFIG };
const char *configNames[] = { "v1", "v2", "v1+v2" };

struct Case {
    int config, from, wrapper, inner, structure;
};

QByteArray buildOuter(const Case &c)
{
    QByteArray m = "<message";
    if (froms[c.from].jid != "-") {
        m += " from='" + froms[c.from].jid + "'";
    }
    m += " to='user@example.org/r' type='chat' id='outer1'>";
    const QByteArray inner = inners[c.inner].xml;
    const QByteArray fwdOpen = c.structure == WrongForwardedNs ? "<forwarded xmlns='urn:xmpp:forward:1'>" : "<forwarded xmlns='urn:xmpp:forward:0'>";
    const QByteArray carbonNs = c.structure == WrongCarbonNs ? "urn:xmpp:carbons:1" : "urn:xmpp:carbons:2";
    auto wrap = [&](const char *w) {
        QByteArray x = QByteArray("<") + w + " xmlns='" + carbonNs + "'>";
        switch (c.structure) {
        case NoForwarded: x += inner; break;
        case NoInnerMessage: x += fwdOpen + "<delay xmlns='urn:xmpp:delay' stamp='2020-01-01T00:00:00Z'/></forwarded>"; break;
        case TwoInnerMessages: x += fwdOpen + inner + inners[(c.inner + 1) % NINNER].xml + "</forwarded>"; break;
        default: x += fwdOpen + inner + "</forwarded>"; break;
        }
        return x + "</" + w + ">";
    };
    m += wrap(wrappers[c.wrapper]);
    if (c.structure == BothWrappers) {
        m += wrap(wrappers[1 - c.wrapper]);
    }
    if (c.structure == ExtraOuterBody) {
        m += "<body>OUTERBODY</body>";
    }
    return m + "</message>";
}

Expect structureExpect(int s)
{
    switch (s) {
    case WellFormed:
    case ExtraOuterBody: return MustUnwrap;
    case TwoInnerMessages:
    case BothWrappers: return DontCare;
    default: return MustNot;
    }
}

struct Emission {
    QString signal;
    QString from, body;
    bool forwardedFlag;
    QByteArray xml;
};

QJsonObject caseJson(const Case &c)
{
    return { { QStringLiteral("config"), c.config }, { QStringLiteral("from"), c.from }, { QStringLiteral("wrapper"), c.wrapper }, { QStringLiteral("inner"), c.inner }, { QStringLiteral("structure"), c.structure },
             { QStringLiteral("desc"), QStringLiteral("%1 from=%2 <%3/> inner=%4 %5").arg(QString::fromLatin1(configNames[c.config]), QString::fromLatin1(froms[c.from].name), QString::fromLatin1(wrappers[c.wrapper]),
                                                                                         QString::fromLatin1(inners[c.inner].name), QString::fromLatin1(structNames[c.structure])) } };
}

void evalCase(EnumCtx &ctx, const Case &c)
{
    ClientRig rig(ctx.shard);
    std::vector<Emission> em;
    auto record = [&em](const char *sig, const QXmppMessage &m) {
        em.push_back({ QString::fromLatin1(sig), m.from(), m.body(), m.isCarbonForwarded(), writeXml([&](QXmlStreamWriter *w) { m.toXml(w); }) });
    };
    QXmppCarbonManager *v1 = nullptr;
    if (c.config == V2 || c.config == Both) {
        rig.client->addExtension(new QXmppCarbonManagerV2);
    }
    if (c.config == V1 || c.config == Both) {
        v1 = new QXmppCarbonManager;
        rig.client->addExtension(v1);
        QObject::connect(v1, &QXmppCarbonManager::messageSent, &rig, [&](const QXmppMessage &m) { record("v1.messageSent", m); });
        QObject::connect(v1, &QXmppCarbonManager::messageReceived, &rig, [&](const QXmppMessage &m) { record("v1.messageReceived", m); });
    }
    QObject::connect(rig.client.get(), &QXmppClient::messageReceived, &rig, [&](const QXmppMessage &m) { record("client.messageReceived", m); });
    LoginOptions lo;
    lo.offerSm = false;
    if (!rig.listen() || !rig.connectClient(rig.baseConfig()) || !rig.login(lo)) {
        fprintf(stderr, "INTERNAL: login failed: %s\n", qPrintable(rig.error));
        exit(3);
    }
    rig.sync();
    const QByteArray outer = buildOuter(c);
    rig.serverSend(outer);
    rig.sync();
    ++ctx.evaluations;

    Expect ex = froms[c.from].e;
    const Expect se = structureExpect(c.structure);
    if (ex == MustUnwrap) {
        ex = se;
    } else if (ex == DontCare && se == MustNot) {
        ex = MustNot;
    }
    if (froms[c.from].e != MustUnwrap) {
        ++ctx.nontrivial;
    }
    // independent rendering of the inner message
    QByteArray expectXml;
    QString innerBody;
    {
        QDomDocument d;
        const auto el = parseXml(inners[c.inner].xml, &d);
        QXmppMessage m;
        m.parse(el);
        m.setCarbonForwarded(true);
        expectXml = writeXml([&](QXmlStreamWriter *w) { m.toXml(w); });
        innerBody = m.body();
    }
    int presented = 0;
    bool innermostPresented = false;
    QStringList seen;
    for (const auto &e : em) {
        seen << QStringLiteral("%1[from=%2 body=%3 fwd=%4]").arg(e.signal, e.from, e.body.left(20)).arg(e.forwardedFlag);
        if (e.body.contains(QLatin1String("INNERBODY")) || e.from.contains(QLatin1String("victim@"))) {
            ++presented;
            if (ex != MustNot) {
                if (!e.forwardedFlag) {
                    ctx.violation(QStringLiteral("C11/presented-without-forwarded-flag:") + QString::fromLatin1(configNames[c.config]),
                                  QStringLiteral("the inner message was presented by %1 without the forwarded flag").arg(e.signal), caseJson(c));
                }
                if (c.structure == WellFormed || c.structure == ExtraOuterBody) {
                    if (e.xml != expectXml) {
                        ctx.violation(QStringLiteral("C11/presented-message-differs-from-inner:") + QString::fromLatin1(configNames[c.config]),
                                      QStringLiteral("presented: %1 ; inner: %2").arg(QString::fromUtf8(e.xml.left(300)), QString::fromUtf8(expectXml.left(300))), caseJson(c));
                    }
                }
            }
        }
        if (e.body.contains(QLatin1String("INNERMOSTBODY"))) {
            innermostPresented = true;
        }
        // whatever is presented as carbon-forwarded must be the forwarded message (not an empty or otherwise invented one)
        if (e.forwardedFlag && !e.body.contains(QLatin1String("INNERBODY")) && !e.from.contains(QLatin1String("victim@")) && !e.body.contains(QLatin1String("INNERMOSTBODY"))) {
            ctx.violation(QStringLiteral("C11/forwarded-flag-on-message-that-was-not-forwarded:%1:%2").arg(QString::fromLatin1(configNames[c.config]), QString::fromLatin1(structNames[c.structure])),
                          QStringLiteral("outer %1 -> presented as carbon-forwarded: %2 (%3)").arg(QString::fromUtf8(outer.left(200)), seen.last(), QString::fromUtf8(e.xml.left(200))), caseJson(c));
        }
    }
    ctx.count(QStringLiteral("presented=%1").arg(presented));
    ctx.outcome(QStringLiteral("%1/%2").arg(presented).arg(seen.join(QLatin1Char(';')).left(80)));
    if (ex == MustNot && presented > 0) {
        ctx.violation(QStringLiteral("C11/unwrapped-from-unauthorised-sender:%1:from=%2:%3").arg(QString::fromLatin1(configNames[c.config]), QString::fromLatin1(froms[c.from].name), QString::fromLatin1(structNames[c.structure])),
                      QStringLiteral("outer %1 -> the inner message was presented: %2").arg(QString::fromUtf8(outer.left(200)), seen.join(QLatin1Char(' '))), caseJson(c));
    }
    if (ex == MustUnwrap && presented == 0) {
        ctx.violation(QStringLiteral("C11/genuine-carbon-not-presented:%1:%2").arg(QString::fromLatin1(configNames[c.config]), QString::fromLatin1(structNames[c.structure])),
                      QStringLiteral("a well-formed carbon from the own bare JID was not presented; signals: %1").arg(seen.join(QLatin1Char(' '))), caseJson(c));
    }
    if (innermostPresented) {
        ctx.violation(QStringLiteral("C11/nested-wrapper-unwrapped:") + QString::fromLatin1(configNames[c.config]), QStringLiteral("the message inside a nested carbon wrapper was presented: %1").arg(seen.join(QLatin1Char(' '))),
                      caseJson(c));
    }
    if (ctx.verbose) {
        fprintf(stderr, "outer: %s\nexpect=%d presented=%d\n%s\n", outer.constData(), int(ex), presented, qPrintable(seen.join(QLatin1Char('\n'))));
    }
}

}  // namespace

int main(int argc, char **argv)
{
    QCoreApplication app(argc, argv);
    EnumCtx ctx;
    ctx.parseArgs(argc, argv);
    if (ctx.replay) {
        const auto &r = ctx.replayCase;
        evalCase(ctx, { r.value(QStringLiteral("config")).toInt(), r.value(QStringLiteral("from")).toInt(), r.value(QStringLiteral("wrapper")).toInt(), r.value(QStringLiteral("inner")).toInt(),
                        r.value(QStringLiteral("structure")).toInt() });
        return ctx.finish();
    }
    for (int cfg = 0; cfg < NCONFIG; ++cfg) {
        for (int f = 0; f < NFROM; ++f) {
            for (int w = 0; w < 2; ++w) {
                for (int i = 0; i < NINNER; ++i) {
                    for (int s = 0; s < NSTRUCT; ++s) {
                        if (ctx.mine()) {
                            Case c { cfg, f, w, i, s };
                            evalCase(ctx, c);
                            if (f == 1 && s == 0 && i == 0 && w == 0) {
                                ctx.sample(caseJson(c));
                            }
                        }
                    }
                }
            }
        }
    }
    return ctx.finish();
}
