// C12 — the roster view is the last full roster plus authorised pushes; presence table. BFS worker.
#include "QXmppRosterManager.h"
#include "clientrig.h"

using namespace verif;

namespace {

const QString OWN_BARE = QStringLiteral("user@example.org");
enum Expect { Authorised, Unauthorised, DontCare };

struct PushFrom {
    const char *name;
    QByteArray from;   // "-" = absent
    Expect e;
};
const PushFrom pushFroms[] = {
    { "absent", "-", Authorised },
    { "own-bare", "user@example.org", Authorised },
    { "own-full", "user@example.org/r", Authorised },
    { "server-domain", "example.org", DontCare },
    { "stranger", "contact@example.net/x", Unauthorised },
    { "lookalike", "user@example.org.evil.net", Unauthorised },
    { "roster-contact-a", "a@example.net/r1", Unauthorised },
    // the sender is a stranger; an attribute named 'from' in another namespace carries the own bare JID (spliced in through the quote)
    { "stranger-plus-foreign-namespace-from-attribute", "contact@example.net/x' xmlns:x='urn:verif:x' x:from='user@example.org", Unauthorised },
};
const int NPF = sizeof(pushFroms) / sizeof(pushFroms[0]);

struct PushOp {
    const char *name;
    QByteArray jid, nameAttr, subscription;
};
const PushOp pushOps[] = {
    { "set a (name A1, both)", "a@example.net", "A1", "both" },
    { "set a (name A2, to)", "a@example.net", "A2", "to" },
    { "set b (name B1, from)", "b@example.net", "B1", "from" },
    { "remove a", "a@example.net", "", "remove" },
    { "remove c", "c@example.net", "", "remove" },
};
const int NPO = sizeof(pushOps) / sizeof(pushOps[0]);

struct RosterResultV {
    const char *name;
    QList<QList<QByteArray>> items;   // jid, name, subscription
};
const RosterResultV results[] = {
    { "empty", {} },
    { "{a}", { { "a@example.net", "RA", "both" } } },
    { "{a,b}", { { "a@example.net", "RA2", "to" }, { "b@example.net", "RB", "both" } } },
    { "{c}", { { "c@example.net", "RC", "none" } } },
};
const int NRES = 4;

struct PresEv {
    const char *name;
    QByteArray from;
    bool available;
};
const PresEv presEvs[] = {
    { "available a/r1", "a@example.net/r1", true }, { "unavailable a/r1", "a@example.net/r1", false }, { "available a/r2", "a@example.net/r2", true },
    { "unavailable a/r2", "a@example.net/r2", false }, { "available b/r1", "b@example.net/r1", true }, { "unavailable b/r1", "b@example.net/r1", false },
};
const int NPRES = 6;

struct Event {
    QString name;
    enum T { Result, Push, Presence, Drop, ReconnectResumed, ReconnectNewSm, ReconnectNewNoSm, Disconnect } type;
    int a = 0, b = 0;
    int deviation = 0;
};

std::vector<Event> buildEvents()
{
    std::vector<Event> ev;
    for (int r = 0; r < NRES; ++r) {
        ev.push_back({ QStringLiteral("roster result %1").arg(QString::fromLatin1(results[r].name)), Event::Result, r });
    }
    for (int o = 0; o < NPO; ++o) {
        for (int f = 0; f < NPF; ++f) {
            ev.push_back({ QStringLiteral("push %1 from=%2").arg(QString::fromLatin1(pushOps[o].name), QString::fromLatin1(pushFroms[f].name)), Event::Push, o, f, pushFroms[f].e == Authorised ? 0 : 1 });
        }
    }
    for (int p = 0; p < NPRES; ++p) {
        ev.push_back({ QStringLiteral("presence %1").arg(QString::fromLatin1(presEvs[p].name)), Event::Presence, p });
    }
    ev.push_back({ QStringLiteral("drop connection"), Event::Drop, 0, 0, 1 });
    ev.push_back({ QStringLiteral("reconnect: resumed"), Event::ReconnectResumed });
    ev.push_back({ QStringLiteral("reconnect: new session with sm"), Event::ReconnectNewSm });
    ev.push_back({ QStringLiteral("reconnect: new session without sm"), Event::ReconnectNewNoSm });
    ev.push_back({ QStringLiteral("disconnectFromServer()"), Event::Disconnect });
    return ev;
}

struct Item {
    QString name, subscription;
    bool operator==(const Item &o) const { return name == o.name && subscription == o.subscription; }
};

QString subToString(QXmppRosterIq::Item::SubscriptionType t)
{
    switch (t) {
    case QXmppRosterIq::Item::None: return QStringLiteral("none");
    case QXmppRosterIq::Item::From: return QStringLiteral("from");
    case QXmppRosterIq::Item::To: return QStringLiteral("to");
    case QXmppRosterIq::Item::Both: return QStringLiteral("both");
    case QXmppRosterIq::Item::Remove: return QStringLiteral("remove");
    case QXmppRosterIq::Item::NotSet: return QStringLiteral("notset");
    }
    return QStringLiteral("?");
}

struct Exec {
    ClientRig rig;
    QXmppRosterManager *roster = nullptr;
    std::vector<Event> events = buildEvents();
    RunResult res;
    // model
    QMap<QString, Item> view;
    QMap<QString, QSet<QString>> pres;
    bool open = false, sm = true, resumable = true, viewDefined = true;
    QByteArray pendingRosterId;   // id of the outstanding roster request ("" = none)
    QList<QByteArray> answeredRosterIds, seenRosterIds;
    int pushCounter = 0, sessions = 0;
    QStringList signalLog;
    int wirePos = 0;

    explicit Exec(int worker) : rig(worker) { }
    ~Exec() { rig.client.reset(); }

    void violate(const QString &key, const QString &msg) { res.violations.append(violation(QStringLiteral("C12/") + key, msg)); }
    void witness(const char *k) { res.witness[QString::fromLatin1(k)] = res.witness.value(QString::fromLatin1(k)).toInt() + 1; }

    void setup()
    {
        roster = new QXmppRosterManager(rig.client.get());
        rig.client->addExtension(roster);
        QObject::connect(roster, &QXmppRosterManager::itemAdded, &rig, [this](const QString &j) { signalLog << QStringLiteral("added:") + j; });
        QObject::connect(roster, &QXmppRosterManager::itemChanged, &rig, [this](const QString &j) { signalLog << QStringLiteral("changed:") + j; });
        QObject::connect(roster, &QXmppRosterManager::itemRemoved, &rig, [this](const QString &j) { signalLog << QStringLiteral("removed:") + j; });
        QObject::connect(roster, &QXmppRosterManager::rosterReceived, &rig, [this]() { signalLog << QStringLiteral("rosterReceived"); });
    }

    // scan new wire items: roster requests (remember id), result/error IQs (for push acknowledgement checks)
    QList<QPair<QString, QString>> scanWire()   // returns (type,id) of result/error iqs sent by the client
    {
        QList<QPair<QString, QString>> replies;
        for (; wirePos < rig.wire.size(); ++wirePos) {
            const auto &it = rig.wire[wirePos];
            if (!it.startsWith("<iq")) {
                continue;
            }
            QDomDocument d;
            const auto el = parseXml(QByteArray("<w xmlns='jabber:client'>") + it + "</w>", &d).firstChildElement();
            const auto type = el.attribute(QStringLiteral("type"));
            if (type == QLatin1String("get") && el.firstChildElement().namespaceURI() == QLatin1String("jabber:iq:roster")) {
                // a request seen before is a stream-management retransmission (after <resumed h='0'/>, or of a request that was
                // cancelled when resumption failed): it is not a new outstanding request
                const auto id = el.attribute(QStringLiteral("id")).toUtf8();
                if (!seenRosterIds.contains(id)) {
                    seenRosterIds << id;
                    pendingRosterId = id;
                    witness("roster_requests");
                }
            } else if (type == QLatin1String("result") || type == QLatin1String("error")) {
                replies << qMakePair(type, el.attribute(QStringLiteral("id")));
            }
        }
        return replies;
    }

    bool login(bool withSm, int resumeH)
    {
        LoginOptions o;
        o.offerSm = withSm;
        o.resumeAnswerH = resumeH;
        o.smId = QStringLiteral("sm%1").arg(resumeH >= 0 ? sessions : ++sessions);
        if (!rig.login(o)) {
            violate(QStringLiteral("negotiation-failed"), rig.error);
            return false;
        }
        rig.sync();
        open = rig.client->isConnected();
        scanWire();
        return true;
    }

    void compareView(const QString &ctx)
    {
        if (!viewDefined) {
            return;
        }
        QStringList implJids = roster->getRosterBareJids();
        implJids.sort();
        QStringList modelJids = view.keys();
        modelJids.sort();
        if (implJids != modelJids) {
            violate(QStringLiteral("roster-view-differs"), QStringLiteral("%1: roster manager lists [%2], reference view is [%3]").arg(ctx, implJids.join(QLatin1Char(',')), modelJids.join(QLatin1Char(','))));
            return;
        }
        for (const auto &j : std::as_const(modelJids)) {
            const auto e = roster->getRosterEntry(j);
            const Item got { e.name(), subToString(e.subscriptionType()) };
            if (!(got == view[j])) {
                violate(QStringLiteral("roster-entry-differs"), QStringLiteral("%1: entry %2 is (%3,%4), reference (%5,%6)").arg(ctx, j, got.name, got.subscription, view[j].name, view[j].subscription));
            }
        }
        for (const QString &bare : { QStringLiteral("a@example.net"), QStringLiteral("b@example.net") }) {
            QStringList impl = roster->getResources(bare);
            impl.sort();
            QStringList model = pres.value(bare).values();
            model.sort();
            if (impl != model) {
                violate(QStringLiteral("presence-table-differs"), QStringLiteral("%1: resources of %2 are [%3], reference [%4]").arg(ctx, bare, impl.join(QLatin1Char(',')), model.join(QLatin1Char(','))));
            }
            QStringList all = roster->getAllPresencesForBareJid(bare).keys();
            all.sort();
            if (all != model) {
                violate(QStringLiteral("presence-table-differs"), QStringLiteral("%1: getAllPresencesForBareJid(%2) lists [%3], reference [%4]").arg(ctx, bare, all.join(QLatin1Char(',')), model.join(QLatin1Char(','))));
            }
        }
    }

    void newSessionModel()
    {
        view.clear();
        pres.clear();
        viewDefined = true;
    }

    void step(int evId)
    {
        const Event &e = events[size_t(evId)];
        const QString ctx = e.name;
        signalLog.clear();
        switch (e.type) {
        case Event::Result: {
            QByteArray xml = "<iq type='result' id='" + pendingRosterId + "' to='user@example.org/r'><query xmlns='jabber:iq:roster'>";
            QMap<QString, Item> nv;
            for (const auto &it : results[e.a].items) {
                xml += "<item jid='" + it[0] + "' name='" + it[1] + "' subscription='" + it[2] + "'/>";
                nv.insert(QString::fromUtf8(it[0]), { QString::fromUtf8(it[1]), QString::fromUtf8(it[2]) });
            }
            xml += "</query></iq>";
            answeredRosterIds << pendingRosterId;
            pendingRosterId.clear();
            rig.serverSend(xml);
            view = nv;
            if (!signalLog.contains(QStringLiteral("rosterReceived"))) {
                violate(QStringLiteral("roster-result-ignored"), QStringLiteral("the full roster result did not produce rosterReceived()"));
            }
            witness("roster_results");
            break;
        }
        case Event::Push: {
            const auto &op = pushOps[e.a];
            const auto &pf = pushFroms[e.b];
            const QByteArray id = "push" + QByteArray::number(++pushCounter);
            QByteArray xml = "<iq type='set' id='" + id + "'";
            if (pf.from != "-") {
                xml += " from='" + pf.from + "'";
            }
            xml += " to='user@example.org/r'><query xmlns='jabber:iq:roster'><item jid='" + op.jid + "'";
            if (!op.nameAttr.isEmpty()) {
                xml += " name='" + op.nameAttr + "'";
            }
            xml += " subscription='" + op.subscription + "'/></query></iq>";
            const auto before = view;
            QStringList implBefore = roster->getRosterBareJids();
            implBefore.sort();
            rig.serverSend(xml);
            const auto replies = scanWire();
            int results = 0, errors = 0;
            for (const auto &r : replies) {
                if (r.second == QString::fromUtf8(id)) {
                    (r.first == QLatin1String("result") ? results : errors)++;
                }
            }
            Expect ex = pf.e;
            if (ex == DontCare) {
                ex = results > 0 ? Authorised : Unauthorised;   // follow the implementation's choice, then hold it to it
                witness("dont_care_pushes");
            }
            const QString jid = QString::fromUtf8(op.jid);
            if (ex == Authorised) {
                if (results != 1 || errors != 0) {
                    violate(QStringLiteral("authorised-push-not-acknowledged-once"), QStringLiteral("%1: %2 result and %3 error IQs were sent for the push").arg(ctx).arg(results).arg(errors));
                }
                QString expectSignal;
                if (op.subscription == "remove") {
                    if (view.remove(jid)) {
                        expectSignal = QStringLiteral("removed:") + jid;
                    }
                } else {
                    expectSignal = (view.contains(jid) ? QStringLiteral("changed:") : QStringLiteral("added:")) + jid;
                    view.insert(jid, { QString::fromUtf8(op.nameAttr), QString::fromUtf8(op.subscription) });
                }
                QStringList itemSignals;
                for (const auto &s : std::as_const(signalLog)) {
                    if (s != QLatin1String("rosterReceived")) {
                        itemSignals << s;
                    }
                }
                if (itemSignals != (expectSignal.isEmpty() ? QStringList() : QStringList { expectSignal })) {
                    violate(QStringLiteral("push-signals-differ"), QStringLiteral("%1: signals [%2], reference delta [%3]").arg(ctx, itemSignals.join(QLatin1Char(',')), expectSignal));
                }
                witness("authorised_pushes");
            } else {
                if (results != 0) {
                    violate(QStringLiteral("unauthorised-push-acknowledged:from=") + QString::fromLatin1(pf.name), QStringLiteral("%1: a roster push from an unauthorised entity was acknowledged with a result IQ").arg(ctx));
                }
                if (!signalLog.isEmpty()) {
                    violate(QStringLiteral("unauthorised-push-signalled:from=") + QString::fromLatin1(pf.name), QStringLiteral("%1: signals %2").arg(ctx, signalLog.join(QLatin1Char(','))));
                }
                QStringList implAfter = roster->getRosterBareJids();
                implAfter.sort();
                if (implAfter != implBefore) {
                    violate(QStringLiteral("unauthorised-push-applied:from=") + QString::fromLatin1(pf.name), QStringLiteral("%1: roster changed from [%2] to [%3]").arg(ctx, implBefore.join(QLatin1Char(',')), implAfter.join(QLatin1Char(','))));
                }
                witness("unauthorised_pushes");
            }
            break;
        }
        case Event::Presence: {
            const auto &p = presEvs[e.a];
            const QString full = QString::fromUtf8(p.from);
            const QString bare = full.section(QLatin1Char('/'), 0, 0), resource = full.section(QLatin1Char('/'), 1);
            rig.serverSend("<presence from='" + p.from + "' to='user@example.org/r'" + (p.available ? "" : " type='unavailable'") + "/>");
            if (p.available) {
                pres[bare].insert(resource);
            } else {
                pres[bare].remove(resource);
            }
            witness("presences");
            break;
        }
        case Event::Drop:
            rig.server.closePeer(true);
            rig.sync();
            open = false;
            if (!(sm && resumable)) {
                pendingRosterId.clear();   // a resumable loss keeps the request outstanding: it can be answered after <resumed/>
                viewDefined = false;   // between sessions nothing is demanded
            }
            witness("drops");
            break;
        case Event::Disconnect:
            rig.client->disconnectFromServer();
            rig.sync();
            open = false;
            resumable = false;
            pendingRosterId.clear();
            viewDefined = false;
            break;
        case Event::ReconnectResumed:
            if (!rig.reconnectClient() || !login(true, 0)) {
                break;
            }
            viewDefined = true;
            witness("resumed");
            break;
        case Event::ReconnectNewSm:
        case Event::ReconnectNewNoSm:
            if (!rig.reconnectClient()) {
                violate(QStringLiteral("reconnect-failed"), rig.error);
                break;
            }
            sm = e.type == Event::ReconnectNewSm;
            resumable = sm;
            pendingRosterId.clear();
            newSessionModel();
            if (!login(sm, -1)) {
                break;
            }
            if (pendingRosterId.isEmpty()) {
                violate(QStringLiteral("no-roster-request-on-new-session"), QStringLiteral("a new session did not request the roster"));
            }
            witness("new_sessions");
            break;
        }
        scanWire();
        compareView(ctx);
    }

    std::vector<int> enabled() const
    {
        std::vector<int> en;
        if (!res.violations.isEmpty()) {
            return en;
        }
        for (int i = 0; i < int(events.size()); ++i) {
            const auto &e = events[size_t(i)];
            switch (e.type) {
            case Event::Result:
                if (open && !pendingRosterId.isEmpty()) {
                    en.push_back(i);
                }
                break;
            case Event::Push:
            case Event::Presence:
            case Event::Drop:
            case Event::Disconnect:
                if (open) {
                    en.push_back(i);
                }
                break;
            case Event::ReconnectResumed:
                if (!open && sm && resumable) {
                    en.push_back(i);
                }
                break;
            case Event::ReconnectNewSm:
            case Event::ReconnectNewNoSm:
                if (!open) {
                    en.push_back(i);
                }
                break;
            }
        }
        return en;
    }

    QString canon() const
    {
        QStringList v;
        for (auto it = view.begin(); it != view.end(); ++it) {
            v << it.key() + QLatin1Char('=') + it.value().name + QLatin1Char('/') + it.value().subscription;
        }
        QStringList p;
        for (auto it = pres.begin(); it != pres.end(); ++it) {
            QStringList r = it.value().values();
            r.sort();
            p << it.key() + QLatin1Char(':') + r.join(QLatin1Char('+'));
        }
        QStringList impl;
        auto jids = roster->getRosterBareJids();
        jids.sort();
        for (const auto &j : std::as_const(jids)) {
            impl << j + QLatin1Char('=') + roster->getRosterEntry(j).name() + QLatin1Char('/') + subToString(roster->getRosterEntry(j).subscriptionType());
        }
        QStringList ip;
        for (const QString &bare : { QStringLiteral("a@example.net"), QStringLiteral("b@example.net"), QStringLiteral("c@example.net") }) {
            auto r = roster->getResources(bare);
            r.sort();
            ip << bare + QLatin1Char(':') + r.join(QLatin1Char('+'));
        }
        return QStringLiteral("M open%1 sm%2 res%3 def%4 pend%5 view[%6] pres[%7] | I recv%8 ent[%9] pres[%10] | %11")
            .arg(open).arg(sm).arg(resumable).arg(viewDefined).arg(!pendingRosterId.isEmpty()).arg(v.join(QLatin1Char(',')), p.join(QLatin1Char(',')))
            .arg(roster->isRosterReceived()).arg(impl.join(QLatin1Char(',')), ip.join(QLatin1Char(',')), rig.coreSnapshot());
    }
};

}  // namespace

int main(int argc, char **argv)
{
    QCoreApplication app(argc, argv);
    Harness h;
    h.describe = [] {
        QJsonArray evs;
        const auto events = buildEvents();
        for (int i = 0; i < int(events.size()); ++i) {
            evs.append(QJsonObject { { QStringLiteral("id"), i }, { QStringLiteral("name"), events[size_t(i)].name }, { QStringLiteral("deviation"), events[size_t(i)].deviation } });
        }
        return QJsonObject { { QStringLiteral("property"), QStringLiteral("C12") }, { QStringLiteral("events"), evs } };
    };
    h.run = [](const QJsonObject &, const std::vector<int> &history, bool) {
        Exec x(workerId());
        x.setup();
        if (!x.rig.listen() || !x.rig.connectClient(x.rig.baseConfig()) || !x.login(true, -1)) {
            x.violate(QStringLiteral("negotiation-failed"), QStringLiteral("first login: ") + x.rig.error);
        } else {
            if (x.pendingRosterId.isEmpty()) {
                x.violate(QStringLiteral("no-roster-request-on-new-session"), QStringLiteral("the first session did not request the roster"));
            }
            for (int ev : history) {
                const auto en = x.enabled();
                if (std::find(en.begin(), en.end(), ev) == en.end()) {
                    x.violate(QStringLiteral("replay-diverged"), QStringLiteral("event %1 not enabled on replay").arg(x.events[size_t(ev)].name));
                    break;
                }
                x.step(ev);
                if (!x.rig.error.isEmpty()) {
                    x.violate(QStringLiteral("harness-barrier"), x.rig.error);
                    break;
                }
            }
        }
        x.res.enabled = x.enabled();
        x.res.canon = x.canon();
        x.res.outcome = QStringLiteral("%1|%2").arg(QStringList(x.view.keys()).join(QLatin1Char(','))).arg(x.open);
        return x.res;
    };
    return workerMain(argc, argv, h);
}
