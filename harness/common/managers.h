// The bundled client extensions that can be instantiated without external storages / network access managers.
// The first NDEFAULT entries are the ones QXmppClient installs by default.
#pragma once

#include "QXmppAccountMigrationManager.h"
#include "QXmppArchiveManager.h"
#include "QXmppAttentionManager.h"
#include "QXmppBlockingManager.h"
#include "QXmppBookmarkManager.h"
#include "QXmppCallInviteManager.h"
#include "QXmppCarbonManager.h"
#include "QXmppCarbonManagerV2.h"
#include "QXmppDiscoveryManager.h"
#include "QXmppEntityTimeManager.h"
#include "QXmppExternalServiceDiscoveryManager.h"
#include "QXmppJingleMessageInitiationManager.h"
#include "QXmppMamManager.h"
#include "QXmppMessageReceiptManager.h"
#include "QXmppMixManager.h"
#include "QXmppMovedManager.h"
#include "QXmppMucManager.h"
#include "QXmppPubSubManager.h"
#include "QXmppRegistrationManager.h"
#include "QXmppRosterManager.h"
#include "QXmppRpcManager.h"
#include "QXmppTransferManager.h"
#include "QXmppUploadRequestManager.h"
#include "QXmppUserLocationManager.h"
#include "QXmppUserTuneManager.h"
#include "QXmppVCardManager.h"
#include "QXmppVersionManager.h"
#include "QXmppClient.h"

#include <functional>
#include <vector>

namespace verif {

struct ExtFactory {
    const char *name;
    std::function<QXmppClientExtension *(QXmppClient *)> make;
};

inline const std::vector<ExtFactory> &factories()
{
    static const std::vector<ExtFactory> f = {
        { "roster", [](QXmppClient *c) { return new QXmppRosterManager(c); } },
        { "vcard", [](QXmppClient *) { return new QXmppVCardManager; } },
        { "version", [](QXmppClient *) { return new QXmppVersionManager; } },
        { "discovery", [](QXmppClient *) { return new QXmppDiscoveryManager; } },
        { "entitytime", [](QXmppClient *) { return new QXmppEntityTimeManager; } },
        { "accountmigration", [](QXmppClient *) { return new QXmppAccountMigrationManager; } },
        { "archive", [](QXmppClient *) { return new QXmppArchiveManager; } },
        { "attention", [](QXmppClient *) { return new QXmppAttentionManager; } },
        { "blocking", [](QXmppClient *) { return new QXmppBlockingManager; } },
        { "bookmark", [](QXmppClient *) { return new QXmppBookmarkManager; } },
        { "callinvite", [](QXmppClient *) { return new QXmppCallInviteManager; } },
        { "carbons-v1", [](QXmppClient *) { return new QXmppCarbonManager; } },
        { "carbons-v2", [](QXmppClient *) { return new QXmppCarbonManagerV2; } },
        { "extdisco", [](QXmppClient *) { return new QXmppExternalServiceDiscoveryManager; } },
        { "jmi", [](QXmppClient *) { return new QXmppJingleMessageInitiationManager; } },
        { "mam", [](QXmppClient *) { return new QXmppMamManager; } },
        { "receipts", [](QXmppClient *) { return new QXmppMessageReceiptManager; } },
        { "pubsub", [](QXmppClient *) { return new QXmppPubSubManager; } },
        { "mix", [](QXmppClient *) { return new QXmppMixManager; } },
        { "moved", [](QXmppClient *) { return new QXmppMovedManager; } },
        { "muc", [](QXmppClient *) { return new QXmppMucManager; } },
        { "registration", [](QXmppClient *) { return new QXmppRegistrationManager; } },
        { "rpc", [](QXmppClient *) { return new QXmppRpcManager; } },
        { "transfer", [](QXmppClient *) { return new QXmppTransferManager; } },
        { "uploadrequest", [](QXmppClient *) { return new QXmppUploadRequestManager; } },
        { "userlocation", [](QXmppClient *) { return new QXmppUserLocationManager; } },
        { "usertune", [](QXmppClient *) { return new QXmppUserTuneManager; } },
    };
    return f;
}
const int NDEFAULT = 5;

}  // namespace verif
