// Helper for the pure-enumeration harnesses: sharding, counters, JSON-lines output.
//
// usage:  harness --tier quick|thorough --shard i/N [--opt k=v ...]
//         harness --replay '<case json>'         (one case, verbose, exit 1 on violation)
//
// output: one JSON object per line:
//   {"type":"violation","key":..,"msg":..,"case":{..}}
//   {"type":"summary","evaluations":..,"nontrivial":..,"counters":{..},"samples":[..],"outcomes":[..]}
#pragma once

#include "vcommon.h"

#include <QCryptographicHash>
#include <QMap>
#include <QSet>

namespace verif {

struct EnumCtx {
    int shard = 0;
    int nshards = 1;
    QString tier = QStringLiteral("quick");
    bool replay = false;
    bool verbose = false;
    QJsonObject replayCase;
    QMap<QString, QString> opts;

    qint64 evaluations = 0;
    qint64 nontrivial = 0;
    QMap<QString, qint64> counters;
    QJsonArray samples;
    QSet<QString> outcomes;
    QSet<QString> reportedKeys;
    int violations = 0;
    int maxViolationsPerKey = 3;
    QMap<QString, int> perKey;
    qint64 caseIndex = 0;

    bool thorough() const { return tier == QLatin1String("thorough"); }

    void parseArgs(int argc, char **argv)
    {
        for (int i = 1; i < argc; ++i) {
            const QString a = QString::fromLocal8Bit(argv[i]);
            auto next = [&]() { return i + 1 < argc ? QString::fromLocal8Bit(argv[++i]) : QString(); };
            if (a == QLatin1String("--tier")) {
                tier = next();
            } else if (a == QLatin1String("--shard")) {
                const auto p = next().split(QLatin1Char('/'));
                shard = p.value(0).toInt();
                nshards = qMax(1, p.value(1).toInt());
            } else if (a == QLatin1String("--replay")) {
                replay = true;
                verbose = true;
                replayCase = QJsonDocument::fromJson(next().toUtf8()).object();
            } else if (a == QLatin1String("--verbose")) {
                verbose = true;
            } else if (a == QLatin1String("--opt")) {
                const auto kv = next();
                const int eq = kv.indexOf(QLatin1Char('='));
                opts.insert(kv.left(eq), kv.mid(eq + 1));
            }
        }
    }

    // round-robin sharding over a running case index
    bool mine()
    {
        return (caseIndex++ % nshards) == shard;
    }

    void count(const QString &name, qint64 n = 1) { counters[name] += n; }

    void outcome(const QString &s)
    {
        if (outcomes.size() < 20000) {
            outcomes.insert(QString::fromLatin1(QCryptographicHash::hash(s.toUtf8(), QCryptographicHash::Sha1).toHex().left(16)));
        }
    }

    void sample(const QJsonValue &v, int max = 6)
    {
        if (samples.size() < max) {
            samples.append(v);
        }
    }

    void violation(const QString &key, const QString &msg, const QJsonObject &c)
    {
        ++violations;
        if (perKey[key]++ >= maxViolationsPerKey) {
            return;
        }
        putJson({ { QStringLiteral("type"), QStringLiteral("violation") },
                  { QStringLiteral("key"), key },
                  { QStringLiteral("msg"), msg },
                  { QStringLiteral("case"), c } });
    }

    int finish()
    {
        QJsonObject cnt;
        for (auto it = counters.begin(); it != counters.end(); ++it) {
            cnt[it.key()] = it.value();
        }
        QJsonObject vk;
        for (auto it = perKey.begin(); it != perKey.end(); ++it) {
            vk[it.key()] = it.value();
        }
        QJsonArray oc;
        for (const auto &o : outcomes) {
            oc.append(o);
        }
        putJson({ { QStringLiteral("type"), QStringLiteral("summary") },
                  { QStringLiteral("evaluations"), evaluations },
                  { QStringLiteral("nontrivial"), nontrivial },
                  { QStringLiteral("counters"), cnt },
                  { QStringLiteral("violation_keys"), vk },
                  { QStringLiteral("samples"), samples },
                  { QStringLiteral("outcomes"), oc } });
        return (replay && violations) ? 1 : 0;
    }
};

}  // namespace verif
