// A real QXmppClient connected over loopback TCP to the scripted in-process server (seam S1).
#pragma once

#include "QXmppClient.h"
#include "QXmppClientExtension.h"
#include "QXmppClient_p.h"
#include "QXmppConfiguration.h"
#include "QXmppLogger.h"
#include "QXmppOutgoingClient.h"
#include "QXmppOutgoingClient_p.h"
#include "QXmppPacket_p.h"
#include "QXmppStanza.h"
#include "loopserver.h"
#include "vcommon.h"

#include <memory>

namespace verif {

inline const QByteArray &serverHeader()
{
    static const QByteArray h = "<?xml version='1.0'?><stream:stream xmlns='jabber:client' xmlns:stream='http://etherx.jabber.org/streams' from='example.org' id='s1' version='1.0'>";
    return h;
}

struct LoginOptions {
    bool offerSm = true;        // <sm/> in the post-auth features
    bool smResumable = true;    // <enabled resume='true'/>
    QString smId = QStringLiteral("sm1");
    QString boundJid = QStringLiteral("user@example.org/r");
    // what to answer if the client asks <resume/>:  -1 = <failed/>, >=0 = <resumed h=N/>
    int resumeAnswerH = -1;
};

class ClientRig : public QObject
{
public:
    explicit ClientRig(int worker, bool keepDefaultExtensions = false)
        : server(worker)
    {
        QXmppStanza::s_uniqeIdNo = 0;
        client = std::make_unique<QXmppClient>();
        if (!keepDefaultExtensions) {
            qDeleteAll(client->d->extensions);
            client->d->extensions.clear();
        }
        client->logger()->setLoggingType(qEnvironmentVariableIsSet("VERIF_LOG") ? QXmppLogger::StdoutLogging : QXmppLogger::NoLogging);
        QObject::connect(client.get(), &QXmppClient::connected, this, [this] { ++connectedSignals; events << QStringLiteral("SIG connected"); });
        QObject::connect(client.get(), &QXmppClient::disconnected, this, [this] { ++disconnectedSignals; events << QStringLiteral("SIG disconnected"); });
        QObject::connect(client.get(), &QXmppClient::stateChanged, this, [this](QXmppClient::State st) {
            if (st == QXmppClient::ConnectedState) {
                ++connectedStateReports;
            } else if (st == QXmppClient::ConnectingState) {
                ++connectingStateReports;
            }
        });
        QObject::connect(client.get(), &QXmppClient::errorOccurred, this, [this](const QXmppError &e) { ++errorSignals; events << QStringLiteral("SIG error ") + e.description.left(60); });
        auto *sock = client->d->stream->socket();
        QObject::connect(sock, &QAbstractSocket::connected, this, [sock] { LoopServer::setNoDelay(sock); });
    }

    ~ClientRig() override
    {
        client.reset();
        QCoreApplication::sendPostedEvents(nullptr, QEvent::DeferredDelete);
    }

    QXmppOutgoingClient *stream() const { return client->d->stream; }
    QXmppOutgoingClientPrivate *sp() const { return client->d->stream->d.get(); }
    QSslSocket *csock() const { return client ? client->d->stream->socket() : nullptr; }

    QXmppConfiguration baseConfig() const
    {
        QXmppConfiguration c;
        c.setHost(server.host());
        c.setPort(server.port());
        c.setDomain(QStringLiteral("example.org"));
        c.setStreamSecurityMode(QXmppConfiguration::TLSDisabled);
        c.setAutoReconnectionEnabled(false);
        c.setAutoAcceptSubscriptions(false);
        c.setIgnoreSslErrors(true);
        c.setResourcePrefix(QStringLiteral("r"));
        return c;
    }

    bool listen() { return server.start(); }

    // Starts a TCP connection attempt and waits until the server accepted it and the client's header arrived.
    bool connectClient(const QXmppConfiguration &cfg)
    {
        const int before = server.acceptedCount();
        client->connectToServer(cfg);
        if (!server.waitAccepted(before)) {
            error = QStringLiteral("client did not connect");
            return false;
        }
        return true;
    }
    bool reconnectClient()
    {
        const int before = server.acceptedCount();
        client->connectToServer(client->configuration());
        if (!server.waitAccepted(before)) {
            error = QStringLiteral("client did not reconnect");
            return false;
        }
        return true;
    }

    // barrier, then return the top-level items the server received since the last call
    QList<QByteArray> sync()
    {
        if (!server.barrier(csock())) {
            error = QStringLiteral("barrier timeout");
        }
        auto items = server.takeItems();
        for (const auto &i : items) {
            if (!i.trimmed().isEmpty()) {
                wire << i;
            }
        }
        return items;
    }

    QList<QByteArray> serverSend(const QByteArray &data)
    {
        server.write(data);
        return sync();
    }

    static bool isHeader(const QByteArray &item) { return item.startsWith("<stream:stream"); }
    static QByteArray firstElement(const QList<QByteArray> &items)
    {
        for (const auto &i : items) {
            if (!i.startsWith("<?xml") && !i.trimmed().isEmpty()) {
                return i;
            }
        }
        return {};
    }

    // SASL ANONYMOUS + bind (+ SM enable / resume) against the scripted server. The TCP connection must have been accepted.
    // Returns true when the script ran to the end (the client may or may not be in a session: check isConnected()).
    bool login(const LoginOptions &o)
    {
        auto items = sync();
        if (items.isEmpty() || !firstElement(items).startsWith("<stream:stream")) {
            error = QStringLiteral("no stream header from client: ") + QString::fromUtf8(items.join(' ').left(100));
            return false;
        }
        items = serverSend(serverHeader() + "<stream:features><mechanisms xmlns='urn:ietf:params:xml:ns:xmpp-sasl'><mechanism>ANONYMOUS</mechanism></mechanisms></stream:features>");
        if (!firstElement(items).startsWith("<auth")) {
            error = QStringLiteral("expected <auth/>, got: ") + QString::fromUtf8(items.join(' ').left(120));
            return false;
        }
        items = serverSend("<success xmlns='urn:ietf:params:xml:ns:xmpp-sasl'/>");
        if (!firstElement(items).startsWith("<stream:stream")) {
            error = QStringLiteral("expected stream restart, got: ") + QString::fromUtf8(items.join(' ').left(120));
            return false;
        }
        QByteArray features = "<stream:features><bind xmlns='urn:ietf:params:xml:ns:xmpp-bind'/>";
        if (o.offerSm) {
            features += "<sm xmlns='urn:xmpp:sm:3'/>";
        }
        features += "</stream:features>";
        items = serverSend(serverHeader() + features);
        auto el = firstElement(items);
        if (el.startsWith("<resume")) {
            resumeRequests << el;
            if (o.resumeAnswerH >= 0) {
                markFinal = wire.size();
                serverSend("<resumed xmlns='urn:xmpp:sm:3' previd='" + o.smId.toUtf8() + "' h='" + QByteArray::number(o.resumeAnswerH) + "'/>");
                // what the client wrote after <resumed/> stays in `wire` for the caller
                return true;
            }
            items = serverSend("<failed xmlns='urn:xmpp:sm:3'><item-not-found xmlns='urn:ietf:params:xml:ns:xmpp-stanzas'/></failed>");
            el = firstElement(items);
        }
        if (!el.startsWith("<iq") || !el.contains("urn:ietf:params:xml:ns:xmpp-bind")) {
            error = QStringLiteral("expected bind request, got: ") + QString::fromUtf8(items.join(' ').left(160));
            return false;
        }
        QDomDocument d;
        const auto bindEl = parseXml(QByteArray("<w xmlns='jabber:client'>") + el + "</w>", &d).firstChildElement();
        const QByteArray bindId = bindEl.attribute(QStringLiteral("id")).toUtf8();
        markFinal = wire.size();
        items = serverSend("<iq type='result' id='" + bindId + "'><bind xmlns='urn:ietf:params:xml:ns:xmpp-bind'><jid>" + o.boundJid.toUtf8() + "</jid></bind></iq>");
        if (o.offerSm) {
            el = firstElement(items);
            if (!el.startsWith("<enable")) {
                error = QStringLiteral("expected <enable/>, got: ") + QString::fromUtf8(items.join(' ').left(160));
                return false;
            }
            markFinal = wire.size();
            serverSend("<enabled xmlns='urn:xmpp:sm:3' id='" + o.smId.toUtf8() + "'" + (o.smResumable ? " resume='true'" : "") + "/>");
        }
        return true;
    }

    // Snapshot of the negotiation / SM fields shared by several harnesses
    QString coreSnapshot() const
    {
        auto *p = sp();
        auto &c2s = p->c2sStreamManager;
        auto &ack = p->streamAckManager;
        QStringList unacked;
        for (auto it = ack.m_unacknowledgedStanzas.begin(); it != ack.m_unacknowledgedStanzas.end(); ++it) {
            unacked << QString::number(it.key());
        }
        QStringList ids;
        for (const auto &[id, st] : p->iqManager.m_requests) {
            ids << id + QLatin1Char('>') + st.jid;
        }
        ids.sort();
        return QStringLiteral("L%1 auth%2 sess%3 sid%4 bind%5 am%6 b2%7 rd%8 nas%9 | c2s e%10 cr%11 sr%12 av%13 id%14 rq%15 | ack e%16 out%17 in%18 un[%19] | sock%20 enc%21 | iq[%22]")
            .arg(p->listener.index())
            .arg(p->isAuthenticated)
            .arg(p->sessionStarted)
            .arg(!p->streamId.isEmpty())
            .arg(p->bindModeAvailable)
            .arg(int(p->authenticationMethod))
            .arg(p->bind2Bound.has_value())
            .arg(p->redirect.has_value())
            .arg(int(p->nextAddressState))
            .arg(c2s.m_enabled)
            .arg(c2s.m_canResume)
            .arg(c2s.m_streamResumed)
            .arg(c2s.m_smAvailable)
            .arg(!c2s.m_smId.isEmpty())
            .arg(c2s.m_request.index())
            .arg(ack.m_enabled)
            .arg(ack.m_lastOutgoingSequenceNumber)
            .arg(ack.m_lastIncomingSequenceNumber)
            .arg(unacked.join(QLatin1Char(',')))
            .arg(int(csock()->state()))
            .arg(csock()->isEncrypted())
            .arg(ids.join(QLatin1Char(',')));
    }

    LoopServer server;
    std::unique_ptr<QXmppClient> client;
    QList<QByteArray> wire;          // every non-blank item the server received, in order, across connections
    QList<QByteArray> resumeRequests;
    int markFinal = 0;               // wire.size() just before the last negotiation element was sent
    QStringList events;
    int connectedSignals = 0, disconnectedSignals = 0, errorSignals = 0;
    int connectedStateReports = 0;   // stateChanged(ConnectedState) emissions
    int connectingStateReports = 0;   // stateChanged(ConnectingState) emissions
    QString error;
};

}  // namespace verif
