// Shared helpers for the qxmpp verification harnesses.
#pragma once

#include <QByteArray>
#include <QCoreApplication>
#include <QDomDocument>
#include <QJsonArray>
#include <QJsonDocument>
#include <QJsonObject>
#include <QString>
#include <QStringList>
#include <QXmlStreamWriter>

#include <cstdio>
#include <functional>
#include <map>
#include <string>
#include <vector>

namespace verif {

// ---------- JSON line output -------------------------------------------------------------
inline void putJson(const QJsonObject &o)
{
    QByteArray b = QJsonDocument(o).toJson(QJsonDocument::Compact);
    fwrite(b.constData(), 1, size_t(b.size()), stdout);
    fputc('\n', stdout);
    fflush(stdout);
}

inline QJsonArray toJsonArray(const QStringList &l)
{
    QJsonArray a;
    for (const auto &s : l) {
        a.append(s);
    }
    return a;
}

inline QJsonArray toJsonArray(const std::vector<int> &l)
{
    QJsonArray a;
    for (int s : l) {
        a.append(s);
    }
    return a;
}

// ---------- XML helpers -------------------------------------------------------------------
// Parse a document with namespace processing; returns null element on failure.
QDomElement parseXml(const QByteArray &xml, QDomDocument *keepAlive, QString *err = nullptr);
QDomElement parseXml(const QString &xml, QDomDocument *keepAlive, QString *err = nullptr);

// Canonical string of a DOM subtree: namespace-resolved names, attributes sorted,
// children optionally sorted (sibling order ignored), text kept verbatim.
QString canonXml(const QDomElement &e, bool sortChildren);

// Serialise through a QXmlStreamWriter callback.
template<typename F>
QByteArray writeXml(F &&f)
{
    QByteArray out;
    QXmlStreamWriter w(&out);
    f(&w);
    return out;
}

// Splits a client->server (or server->client) XMPP byte stream into top-level items:
// "<?xml ...?>", "<stream:stream ...>", "</stream:stream>", complete child elements and
// whitespace runs. Consumes complete items from `buf`, leaves an incomplete tail in place.
QList<QByteArray> splitStreamItems(QByteArray &buf);

// Replace random-looking tokens (uuids, long hex/base64 ids) by R1, R2 ... in order of
// first appearance.  `table` carries the mapping across calls of one execution.
QString maskRandom(const QString &s, QMap<QString, QString> &table);

// ---------- worker line protocol ------------------------------------------------------------
// A BFS harness implements describe() and run(); workerMain() speaks the protocol of
// DESIGN.md Appendix A.1 on stdin/stdout.
struct RunResult {
    QString canon;
    std::vector<int> enabled;
    QStringList obs;
    QJsonArray violations;     // [{key,msg}]
    QJsonObject witness;       // counters
    QString outcome;           // coarse observable outcome class (for diversity count)
};

struct Harness {
    std::function<QJsonObject()> describe;
    std::function<RunResult(const QJsonObject &config, const std::vector<int> &history, bool verbose)> run;
};

int workerMain(int argc, char **argv, const Harness &h);
int workerId();   // from --worker N (0 when absent)

inline QJsonObject violation(const QString &key, const QString &msg)
{
    return QJsonObject { { QStringLiteral("key"), key }, { QStringLiteral("msg"), msg } };
}

}  // namespace verif
