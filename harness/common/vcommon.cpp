#include "vcommon.h"

#include <QElapsedTimer>
#include <QRegularExpression>
#include <QTextStream>

#include <algorithm>
#include <iostream>

namespace verif {

QDomElement parseXml(const QString &xml, QDomDocument *doc, QString *err)
{
    QString e;
    int line = 0, col = 0;
    if (!doc->setContent(xml, true, &e, &line, &col)) {
        if (err) {
            *err = QStringLiteral("%1 at %2:%3").arg(e).arg(line).arg(col);
        }
        return {};
    }
    return doc->documentElement();
}

QDomElement parseXml(const QByteArray &xml, QDomDocument *doc, QString *err)
{
    QString e;
    int line = 0, col = 0;
    if (!doc->setContent(xml, true, &e, &line, &col)) {
        if (err) {
            *err = QStringLiteral("%1 at %2:%3").arg(e).arg(line).arg(col);
        }
        return {};
    }
    return doc->documentElement();
}

static void canonRec(const QDomElement &e, bool sortChildren, QString &out)
{
    out += QLatin1Char('<');
    out += QLatin1Char('{') + e.namespaceURI() + QLatin1Char('}');
    out += e.localName().isEmpty() ? e.tagName() : e.localName();
    QStringList attrs;
    const auto map = e.attributes();
    for (int i = 0; i < map.count(); ++i) {
        const auto a = map.item(i).toAttr();
        // namespace declarations are represented by the resolved namespace of elements
        if (a.name() == QLatin1String("xmlns") || a.name().startsWith(QLatin1String("xmlns:"))) {
            continue;
        }
        QString an = a.localName().isEmpty() ? a.name() : a.localName();
        if (!a.namespaceURI().isEmpty()) {
            an = QLatin1Char('{') + a.namespaceURI() + QLatin1Char('}') + an;
        }
        attrs << an + QLatin1String("=\"") + a.value().toHtmlEscaped() + QLatin1Char('"');
    }
    attrs.sort();
    for (const auto &a : attrs) {
        out += QLatin1Char(' ') + a;
    }
    out += QLatin1Char('>');
    QStringList children;
    QString text;
    for (auto n = e.firstChild(); !n.isNull(); n = n.nextSibling()) {
        if (n.isElement()) {
            QString c;
            canonRec(n.toElement(), sortChildren, c);
            children << c;
        } else if (n.isText() || n.isCDATASection()) {
            text += n.nodeValue();
        }
    }
    if (sortChildren) {
        children.sort();
    }
    if (children.isEmpty()) {
        out += text.toHtmlEscaped();
    } else {
        // mixed content: keep non-whitespace text only (qxmpp never writes mixed content
        // except XHTML bodies, which we keep verbatim through the same rule)
        if (!text.trimmed().isEmpty()) {
            out += text.toHtmlEscaped();
        }
        for (const auto &c : children) {
            out += c;
        }
    }
    out += QLatin1String("</>");
}

QString canonXml(const QDomElement &e, bool sortChildren)
{
    QString out;
    if (e.isNull()) {
        return QStringLiteral("(null)");
    }
    canonRec(e, sortChildren, out);
    return out;
}

// Scans one tag starting at buf[pos]=='<'; returns index one past '>' or -1 when incomplete.
static int scanTag(const QByteArray &buf, int pos, bool *selfClosing)
{
    char quote = 0;
    for (int i = pos + 1; i < buf.size(); ++i) {
        char c = buf[i];
        if (quote) {
            if (c == quote) {
                quote = 0;
            }
        } else if (c == '"' || c == '\'') {
            quote = c;
        } else if (c == '>') {
            *selfClosing = buf[i - 1] == '/';
            return i + 1;
        }
    }
    return -1;
}

QList<QByteArray> splitStreamItems(QByteArray &buf)
{
    QList<QByteArray> items;
    int pos = 0;
    while (pos < buf.size()) {
        // whitespace / text run at top level
        if (buf[pos] != '<') {
            int j = pos;
            while (j < buf.size() && buf[j] != '<') {
                ++j;
            }
            items << buf.mid(pos, j - pos);
            pos = j;
            continue;
        }
        if (buf.mid(pos, 5) == "<?xml") {
            int j = buf.indexOf("?>", pos);
            if (j < 0) {
                break;
            }
            items << buf.mid(pos, j + 2 - pos);
            pos = j + 2;
            continue;
        }
        if (buf.mid(pos, 15) == "</stream:stream") {
            int j = buf.indexOf('>', pos);
            if (j < 0) {
                break;
            }
            items << buf.mid(pos, j + 1 - pos);
            pos = j + 1;
            continue;
        }
        if (buf.mid(pos, 14) == "<stream:stream" && (buf.size() <= pos + 14 || buf[pos + 14] == ' ' || buf[pos + 14] == '>' || buf[pos + 14] == '\n')) {
            bool sc = false;
            int j = scanTag(buf, pos, &sc);
            if (j < 0) {
                break;
            }
            items << buf.mid(pos, j - pos);
            pos = j;
            continue;
        }
        // complete element: count depth
        int depth = 0;
        int i = pos;
        bool complete = false;
        while (i < buf.size()) {
            if (buf[i] != '<') {
                ++i;
                continue;
            }
            if (buf.mid(i, 4) == "<!--") {
                int j = buf.indexOf("-->", i);
                if (j < 0) {
                    i = buf.size();
                    break;
                }
                i = j + 3;
                continue;
            }
            if (buf.mid(i, 9) == "<![CDATA[") {
                int j = buf.indexOf("]]>", i);
                if (j < 0) {
                    i = buf.size();
                    break;
                }
                i = j + 3;
                continue;
            }
            bool sc = false;
            int j = scanTag(buf, i, &sc);
            if (j < 0) {
                i = buf.size();
                break;
            }
            if (buf[i + 1] == '/') {
                --depth;
            } else if (!sc) {
                ++depth;
            }
            i = j;
            if (depth == 0) {
                complete = true;
                break;
            }
        }
        if (!complete) {
            break;
        }
        items << buf.mid(pos, i - pos);
        pos = i;
    }
    buf.remove(0, pos);
    return items;
}

QString maskRandom(const QString &s, QMap<QString, QString> &table)
{
    static const QRegularExpression re(QStringLiteral(
        "[0-9a-fA-F]{8}-[0-9a-fA-F]{4}-[0-9a-fA-F]{4}-[0-9a-fA-F]{4}-[0-9a-fA-F]{12}"));
    QString out;
    int last = 0;
    auto it = re.globalMatch(s);
    while (it.hasNext()) {
        auto m = it.next();
        out += s.mid(last, m.capturedStart() - last);
        const auto tok = m.captured();
        auto f = table.find(tok);
        if (f == table.end()) {
            f = table.insert(tok, QStringLiteral("R%1").arg(table.size() + 1));
        }
        out += f.value();
        last = m.capturedEnd();
    }
    out += s.mid(last);
    return out;
}

static int s_workerId = 0;
int workerId() { return s_workerId; }

int workerMain(int argc, char **argv, const Harness &h)
{
    for (int i = 1; i + 1 < argc; ++i) {
        if (QByteArray(argv[i]) == "--worker") {
            s_workerId = QByteArray(argv[i + 1]).toInt();
        }
    }
    std::string line;
    while (std::getline(std::cin, line)) {
        if (line.empty()) {
            continue;
        }
        QJsonParseError perr;
        const auto doc = QJsonDocument::fromJson(QByteArray::fromStdString(line), &perr);
        if (perr.error != QJsonParseError::NoError) {
            putJson({ { QStringLiteral("error"), QStringLiteral("bad json: ") + perr.errorString() } });
            continue;
        }
        const auto req = doc.object();
        const auto op = req.value(QStringLiteral("op")).toString();
        if (op == QLatin1String("quit")) {
            break;
        }
        if (op == QLatin1String("describe")) {
            putJson(h.describe());
            continue;
        }
        if (op == QLatin1String("run")) {
            std::vector<int> hist;
            const auto arr = req.value(QStringLiteral("history")).toArray();
            for (const auto &v : arr) {
                hist.push_back(v.toInt());
            }
            QElapsedTimer t;
            t.start();
            RunResult r = h.run(req.value(QStringLiteral("config")).toObject(), hist,
                                req.value(QStringLiteral("verbose")).toBool());
            QJsonObject o;
            o[QStringLiteral("canon")] = r.canon;
            o[QStringLiteral("enabled")] = toJsonArray(r.enabled);
            o[QStringLiteral("obs")] = toJsonArray(r.obs);
            o[QStringLiteral("violations")] = r.violations;
            o[QStringLiteral("witness")] = r.witness;
            o[QStringLiteral("outcome")] = r.outcome;
            o[QStringLiteral("wall_us")] = qint64(t.nsecsElapsed() / 1000);
            if (req.contains(QStringLiteral("tag"))) {
                o[QStringLiteral("tag")] = req.value(QStringLiteral("tag"));
            }
            putJson(o);
            continue;
        }
        putJson({ { QStringLiteral("error"), QStringLiteral("unknown op") } });
    }
    return 0;
}

}  // namespace verif
