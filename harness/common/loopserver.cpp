#include "loopserver.h"

#include "vcommon.h"

#include <QCoreApplication>
#include <QElapsedTimer>
#include <QFile>
#include <QSslCertificate>
#include <QSslConfiguration>
#include <QSslKey>

#include <linux/sockios.h>
#include <netinet/in.h>
#include <netinet/tcp.h>
#include <sys/ioctl.h>
#include <sys/socket.h>
#include <unistd.h>

#ifndef SIOCOUTQNSD
#define SIOCOUTQNSD 0x894B
#endif

namespace verif {

static int s_execCounter = 0;
static QSslKey s_key;
static QSslCertificate s_cert;

LoopServer::LoopServer(int workerId, QObject *parent)
    : QTcpServer(parent)
{
    ++s_execCounter;
    // 127.<1+worker%250>.<hi>.<lo>, never .0 or .255 in the last byte
    const int w = 1 + (workerId % 250);
    const int hi = (s_execCounter / 250) % 250;
    const int lo = 1 + (s_execCounter % 250);
    m_addr = QHostAddress(QStringLiteral("127.%1.%2.%3").arg(w).arg(hi).arg(lo));
}

LoopServer::~LoopServer()
{
    if (m_peer) {
        closePeer(true);
    }
    close();
}

bool LoopServer::start()
{
    return listen(m_addr, 0);
}

void LoopServer::setNoDelay(QAbstractSocket *s)
{
    if (s) {
        s->setSocketOption(QAbstractSocket::LowDelayOption, 1);
    }
}

void LoopServer::incomingConnection(qintptr handle)
{
    auto *s = new QSslSocket(this);
    s->setSocketDescriptor(handle);
    setNoDelay(s);
    if (m_peer) {
        // a previous connection that is still around: drop it hard
        closePeer(true);
    }
    m_peer = s;
    ++m_accepted;
    m_rx.clear();
    m_rxPlain.clear();
    m_itemBuf.clear();
    connect(s, &QIODevice::readyRead, this, &LoopServer::onReadyRead);
}

void LoopServer::holdReads(bool on)
{
    m_holdReads = on;
    if (!on && m_peer && m_peer->bytesAvailable() > 0) {
        drain(m_peer);
    }
}

void LoopServer::onReadyRead()
{
    auto *s = qobject_cast<QSslSocket *>(sender());
    if (!s || s != m_peer || m_holdReads) {
        return;
    }
    drain(s);
}

void LoopServer::drain(QSslSocket *s)
{
    const auto data = s->readAll();
    m_rx += data;
    m_itemBuf += data;
    if (!s->isEncrypted()) {
        m_rxPlain += data;
    }
}

bool LoopServer::peerConnected() const
{
    return m_peer && m_peer->state() == QAbstractSocket::ConnectedState;
}

QList<QByteArray> LoopServer::takeItems()
{
    return splitStreamItems(m_itemBuf);
}

void LoopServer::write(const QByteArray &data)
{
    if (!m_peer || m_peer->state() != QAbstractSocket::ConnectedState) {
        return;
    }
    m_peer->write(data);
    m_peer->flush();
}

void LoopServer::closePeer(bool rst)
{
    if (!m_peer) {
        return;
    }
    auto *s = m_peer;
    m_peer = nullptr;
    s->disconnect(this);
    if (rst) {
        const int fd = int(s->socketDescriptor());
        if (fd >= 0) {
            struct linger lg { 1, 0 };
            ::setsockopt(fd, SOL_SOCKET, SO_LINGER, &lg, sizeof lg);
        }
        s->abort();
    } else {
        s->flush();
        s->disconnectFromHost();
        if (s->state() != QAbstractSocket::UnconnectedState) {
            // still flushing; let Qt finish, then make sure it is gone
            connect(s, &QAbstractSocket::disconnected, s, &QObject::deleteLater);
            return;
        }
    }
    s->deleteLater();
}

static bool socketQuiet(QAbstractSocket *s)
{
    if (!s) {
        return true;
    }
    const auto st = s->state();
    if (st == QAbstractSocket::HostLookupState || st == QAbstractSocket::ConnectingState || st == QAbstractSocket::ClosingState) {
        return false;
    }
    if (st != QAbstractSocket::ConnectedState) {
        return true;
    }
    if (s->bytesToWrite() != 0) {
        return false;
    }
    if (auto *ssl = qobject_cast<QSslSocket *>(s)) {
        if (ssl->encryptedBytesToWrite() != 0) {
            return false;
        }
        if (ssl->mode() != QSslSocket::UnencryptedMode && !ssl->isEncrypted()) {
            return false;   // handshake in progress
        }
    }
    const int fd = int(s->socketDescriptor());
    if (fd >= 0) {
        int v = 0;
        if (::ioctl(fd, SIOCOUTQNSD, &v) == 0 && v != 0) {
            return false;
        }
        v = 0;
        if (::ioctl(fd, FIONREAD, &v) == 0 && v != 0) {
            return false;
        }
    }
    return true;
}

bool LoopServer::barrier(QAbstractSocket *client, int timeoutMs)
{
    QElapsedTimer t;
    t.start();
    int quietPasses = 0;
    while (quietPasses < 2) {
        QCoreApplication::sendPostedEvents(nullptr, 0);
        QCoreApplication::processEvents(QEventLoop::AllEvents);
        QCoreApplication::sendPostedEvents(nullptr, QEvent::DeferredDelete);
        const bool quiet = socketQuiet(m_peer) && socketQuiet(client) &&
            (!m_peer || m_holdReads || m_peer->state() != QAbstractSocket::ConnectedState || m_peer->bytesAvailable() == 0) && !hasPendingConnections();
        // note: the client's own bytesAvailable() is always drained by XmppSocket::readyRead
        quietPasses = quiet ? quietPasses + 1 : 0;
        if (t.elapsed() > timeoutMs) {
            return false;
        }
        if (!quiet) {
            // give the kernel a chance to move bytes across loopback
            ::usleep(20);
        }
    }
    return true;
}

bool LoopServer::pumpUntil(const std::function<bool()> &pred, int timeoutMs)
{
    QElapsedTimer t;
    t.start();
    while (!pred()) {
        QCoreApplication::processEvents(QEventLoop::AllEvents);
        QCoreApplication::sendPostedEvents(nullptr, QEvent::DeferredDelete);
        if (t.elapsed() > timeoutMs) {
            return pred();
        }
        ::usleep(20);
    }
    return true;
}

bool LoopServer::waitAccepted(int before, int timeoutMs)
{
    return pumpUntil([&] { return m_accepted > before; }, timeoutMs);
}

bool LoopServer::loadTlsMaterial(const QString &dir)
{
    QFile kf(dir + QStringLiteral("/key.pem"));
    QFile cf(dir + QStringLiteral("/cert.pem"));
    if (!kf.open(QIODevice::ReadOnly) || !cf.open(QIODevice::ReadOnly)) {
        return false;
    }
    s_key = QSslKey(kf.readAll(), QSsl::Rsa);
    s_cert = QSslCertificate(cf.readAll());
    return !s_key.isNull() && !s_cert.isNull();
}

QByteArray LoopServer::peekPending()
{
    if (!m_peer) {
        return {};
    }
    return m_peer->peek(m_peer->bytesAvailable());
}

bool LoopServer::startTls(QAbstractSocket *client, int timeoutMs)
{
    if (!m_peer) {
        return false;
    }
    m_peer->setLocalCertificate(s_cert);
    m_peer->setPrivateKey(s_key);
    m_peer->setPeerVerifyMode(QSslSocket::VerifyNone);
    m_peer->startServerEncryption();
    auto *p = m_peer;
    auto *cssl = qobject_cast<QSslSocket *>(client);
    pumpUntil([&] {
        return (p->isEncrypted() && (!cssl || cssl->isEncrypted())) || p->state() != QAbstractSocket::ConnectedState ||
            (client && client->state() != QAbstractSocket::ConnectedState);
    },
              timeoutMs);
    return p->isEncrypted();
}

}  // namespace verif
