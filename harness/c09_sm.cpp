// C09 — XEP-0198 accounting: BFS worker. A real QXmppClient over loopback against a scripted SM-speaking server;
// a 60-line reference model is compared with the wire and with the send-task reports after every step.
#include "QXmppIq.h"
#include "QXmppMessage.h"
#include "QXmppNonza.h"
#include "QXmppPresence.h"
#include "QXmppSendResult.h"
#include "clientrig.h"

using namespace verif;

namespace {

struct TestNonza : QXmppNonza {
    void parse(const QDomElement &) override { }
    void toXml(QXmlStreamWriter *w) const override
    {
        w->writeStartElement(QStringLiteral("ping-nonza"));
        w->writeDefaultNamespace(QStringLiteral("urn:verif:nonza"));
        w->writeEndElement();
    }
};

enum Ev {
    SendM1, SendM2, SendM3, SendP, SendNonza,
    Ack0, Ack1, Ack2, Ack3, Ack5, Ack9,
    ReqAck, RecvMsg, RecvPres, RecvIqResult, RecvIqGet,
    Drop,
    Resume0, Resume1, Resume2, Resume3, Resume5,
    NewSm, NewNoSm,
    SendIq, RecvIqResultTracked,
    NEV
};
const char *evNames[] = {
    "send(m1)", "send(m2)", "send(m3)", "send(presence p1)", "send(nonza)",
    "ack(0)", "ack(1)", "ack(2)", "ack(3)", "ack(5)", "ack(9)",
    "server <r/>", "recv(message)", "recv(presence)", "recv(iq result, unknown id)", "recv(iq get)",
    "drop connection",
    "reconnect: resumed h=0", "reconnect: resumed h=1", "reconnect: resumed h=2", "reconnect: resumed h=3", "reconnect: resumed h=5",
    "reconnect: resume refused/new session with sm", "reconnect: new session without sm",
    "sendIq(q1) (tracked request)", "recv(iq result for q1 from the addressee)"
};
int ackValue(int ev)
{
    switch (ev) {
    case Ack0: case Resume0: return 0;
    case Ack1: case Resume1: return 1;
    case Ack2: case Resume2: return 2;
    case Ack3: case Resume3: return 3;
    case Ack5: case Resume5: return 5;
    case Ack9: return 9;
    }
    return -1;
}
int deviation(int ev)
{
    return (ev == Drop) ? 1 : 0;
}

struct Unacked {
    int seq;
    QByteArray bytes;
    int task;   // index into tasks, -1 = stanza not sent through a tracked task
};

struct TaskState {
    bool sent = false;
    int reports = 0;
    bool acknowledged = false;
    bool error = false;
    bool modelCovered = false;     // the model saw an h covering it
    bool modelFailedAtSend = false;
    QByteArray bytes;
};

struct Model {
    bool open = false;   // session established
    bool sm = false;
    bool canResume = false;
    QString smId = QStringLiteral("sm1");
    int out = 0;         // outbound stanzas numbered on the current SM session
    int in = 0;          // inbound stanzas on the current SM session
    std::vector<Unacked> unacked;
    QList<QByteArray> covered;   // bytes of stanzas already covered by an h
};

QString tagOf(const QByteArray &item, QString *ns = nullptr, QDomElement *out = nullptr, QDomDocument *keep = nullptr)
{
    QDomDocument local;
    QDomDocument *d = keep ? keep : &local;
    auto root = parseXml(QByteArray("<w xmlns='jabber:client'>") + item + "</w>", d);
    auto el = root.firstChildElement();
    if (ns) {
        *ns = el.namespaceURI();
    }
    if (out) {
        *out = el;
    }
    return el.tagName();
}

bool isStanza(const QByteArray &item)
{
    const auto t = tagOf(item);
    return t == QLatin1String("message") || t == QLatin1String("presence") || t == QLatin1String("iq");
}

struct Exec {
    ClientRig rig;
    Model m;
    TaskState tasks[4];
    RunResult res;
    bool verbose = false;
    int wirePos = 0;   // next unprocessed index in rig.wire
    int injected = 0;  // makes ids of injected stanzas unique
    bool iqSent = false;
    int iqCompletions = 0;
    bool iqEvents = true;   // config "iq": the tracked-request events are part of the alphabet
    int sessions = 0;

    explicit Exec(int worker) : rig(worker) { }
    // the client's destructor completes outstanding tasks, whose continuations touch members of this object
    ~Exec() { rig.client.reset(); }

    void violate(const QString &key, const QString &msg) { res.violations.append(violation(QStringLiteral("C09/") + key, msg)); }
    void witness(const char *k) { res.witness[QString::fromLatin1(k)] = res.witness.value(QString::fromLatin1(k)).toInt() + 1; }

    void markCovered(int h)
    {
        for (auto it = m.unacked.begin(); it != m.unacked.end();) {
            if (it->seq <= h) {
                m.covered << it->bytes;
                if (it->task >= 0) {
                    tasks[it->task].modelCovered = true;
                }
                it = m.unacked.erase(it);
            } else {
                ++it;
            }
        }
    }

    // Process wire items [wirePos, end): number stanzas, check <a/> values, detect illegitimate repeats.
    // `expectRetransmit` is the exact list of stanzas that must come first (after resumed/enabled), else empty.
    void absorbWire(const QList<QByteArray> *expectRetransmit, const QString &ctx)
    {
        QList<QByteArray> stanzas;
        for (; wirePos < rig.wire.size(); ++wirePos) {
            const QByteArray item = rig.wire[wirePos];
            QString ns;
            QDomDocument keep;
            QDomElement el;
            const auto tag = tagOf(item, &ns, &el, &keep);
            res.obs << QStringLiteral("C>S ") + QString::fromUtf8(item.left(160));
            if (tag == QLatin1String("a") && ns == QLatin1String("urn:xmpp:sm:3")) {
                const int h = el.attribute(QStringLiteral("h")).toInt();
                witness("acks_from_client");
                if (h != m.in) {
                    violate(QStringLiteral("handled-count-wrong"), QStringLiteral("%1: client reports <a h='%2'/> but %3 stanzas were delivered on this session").arg(ctx).arg(h).arg(m.in));
                }
                continue;
            }
            if (tag == QLatin1String("message") || tag == QLatin1String("presence") || tag == QLatin1String("iq")) {
                stanzas << item;
            }
        }
        int idx = 0;
        if (expectRetransmit) {
            // exactly the uncovered stanzas, byte-identical, in order, before anything newer
            for (const auto &want : *expectRetransmit) {
                if (idx >= stanzas.size() || stanzas[idx] != want) {
                    violate(QStringLiteral("retransmission-wrong"),
                            QStringLiteral("%1: expected retransmission #%2 to be %3 but the wire has %4").arg(ctx).arg(idx + 1)
                                .arg(QString::fromUtf8(want.left(80)), idx < stanzas.size() ? QString::fromUtf8(stanzas[idx].left(80)) : QStringLiteral("(nothing)")));
                    break;
                }
                ++idx;
                witness("retransmitted");
            }
        }
        for (int i = idx; i < stanzas.size(); ++i) {
            const auto &s = stanzas[i];
            // a stanza with an id that was already covered, or that is still queued, must not be written again
            const bool hasId = s.contains(" id=\"");
            if (hasId && m.covered.contains(s)) {
                violate(QStringLiteral("covered-stanza-resent"), QStringLiteral("%1: a stanza already covered by the server's h was transmitted again: %2").arg(ctx, QString::fromUtf8(s.left(100))));
            }
            bool queued = false;
            for (const auto &u : m.unacked) {
                if (hasId && u.bytes == s) {
                    queued = true;
                }
            }
            if (queued) {
                violate(QStringLiteral("stanza-duplicated"), QStringLiteral("%1: an unacknowledged stanza was transmitted again outside a retransmission: %2").arg(ctx, QString::fromUtf8(s.left(100))));
                continue;
            }
            for (int t = 0; t < 4; ++t) {
                if (tasks[t].modelFailedAtSend && tasks[t].bytes == s) {
                    violate(QStringLiteral("failed-send-transmitted-later"), QStringLiteral("%1: a stanza whose send() failed immediately was transmitted later").arg(ctx));
                }
            }
            if (m.open && m.sm) {
                int task = -1;
                for (int t = 0; t < 4; ++t) {
                    if (tasks[t].sent && tasks[t].bytes == s) {
                        task = t;
                    }
                }
                m.unacked.push_back({ ++m.out, s, task });
            }
        }
    }

    void checkTasks(const QString &ctx)
    {
        for (int t = 0; t < 4; ++t) {
            auto &ts = tasks[t];
            if (!ts.sent) {
                continue;
            }
            if (ts.reports > 1) {
                violate(QStringLiteral("report-fired-twice"), QStringLiteral("%1: delivery report of task %2 fired %3 times").arg(ctx).arg(t).arg(ts.reports));
            }
            if (ts.acknowledged && !ts.modelCovered) {
                violate(QStringLiteral("acknowledged-without-ack"), QStringLiteral("%1: task %2 reports 'acknowledged' but no h from the server covers it").arg(ctx).arg(t));
            }
            if (ts.modelCovered && !(ts.reports >= 1 && ts.acknowledged)) {
                violate(QStringLiteral("covered-but-not-reported"), QStringLiteral("%1: the server's h covers task %2 but its report is %3").arg(ctx).arg(t)
                            .arg(ts.reports == 0 ? QStringLiteral("still pending") : (ts.error ? QStringLiteral("an error") : QStringLiteral("success without acknowledgement"))));
            }
        }
    }

    void sendTracked(int t, QXmppStanza &&stanza, const QByteArray &bytes)
    {
        auto &ts = tasks[t];
        ts.sent = true;
        ts.bytes = bytes;
        const bool wasOpen = m.open;
        rig.client->send(std::move(stanza)).then(&rig, [this, t](QXmpp::SendResult &&r) {
            auto &x = tasks[t];
            ++x.reports;
            if (auto *ok = std::get_if<QXmpp::SendSuccess>(&r)) {
                x.acknowledged = ok->acknowledged;
            } else {
                x.error = true;
            }
        });
        rig.sync();
        if (!wasOpen && ts.reports >= 1 && ts.error) {
            ts.modelFailedAtSend = true;
        }
        if (wasOpen && !m.sm && ts.reports == 0) {
            violate(QStringLiteral("no-report-without-sm"), QStringLiteral("send() on a session without stream management did not report at once"));
        }
    }

    bool firstLogin()
    {
        if (!rig.listen() || !rig.connectClient(rig.baseConfig())) {
            return false;
        }
        LoginOptions o;
        if (!rig.login(o)) {
            return false;
        }
        m.open = rig.client->isConnected();
        m.sm = true;
        m.canResume = true;
        m.out = 0;
        m.in = 0;
        absorbWireAfterLogin(nullptr, QStringLiteral("first login"));
        return true;
    }

    // after a login: items before markFinal are negotiation; those after are session traffic
    void absorbWireAfterLogin(const QList<QByteArray> *expect, const QString &ctx)
    {
        wirePos = rig.markFinal;
        // skip the negotiation element itself (<enable/>, <resume/>, bind iq are before markFinal)
        absorbWire(expect, ctx);
    }

    void step(int ev)
    {
        const QString ctx = QString::fromLatin1(evNames[ev]);
        switch (ev) {
        case SendM1:
        case SendM2:
        case SendM3: {
            const int i = ev - SendM1;
            QXmppMessage msg(QString(), QStringLiteral("contact@example.org"), QStringLiteral("body-m%1").arg(i + 1));
            msg.setId(QStringLiteral("m%1").arg(i + 1));
            const QByteArray bytes = writeXml([&](QXmlStreamWriter *w) { msg.toXml(w); });
            sendTracked(i, std::move(msg), bytes);
            absorbWire(nullptr, ctx);
            break;
        }
        case SendP: {
            QXmppPresence p;
            p.setId(QStringLiteral("p1"));
            p.setStatusText(QStringLiteral("away-p1"));
            const QByteArray bytes = writeXml([&](QXmlStreamWriter *w) { p.toXml(w); });
            sendTracked(3, std::move(p), bytes);
            absorbWire(nullptr, ctx);
            break;
        }
        case SendNonza: {
            const int before = m.out;
            rig.client->sendPacket(TestNonza());
            rig.sync();
            absorbWire(nullptr, ctx);
            if (m.out != before) {
                violate(QStringLiteral("model-error"), QStringLiteral("nonza numbered"));
            }
            witness("nonza_sent");
            break;
        }
        case Ack0: case Ack1: case Ack2: case Ack3: case Ack5: case Ack9: {
            const int h = ackValue(ev);
            markCovered(h);
            rig.serverSend("<a xmlns='urn:xmpp:sm:3' h='" + QByteArray::number(h) + "'/>");
            absorbWire(nullptr, ctx);
            witness("acks_from_server");
            break;
        }
        case ReqAck:
            rig.serverSend("<r xmlns='urn:xmpp:sm:3'/>");
            {
                const int before = res.witness.value(QStringLiteral("acks_from_client")).toInt();
                absorbWire(nullptr, ctx);
                if (m.sm && res.witness.value(QStringLiteral("acks_from_client")).toInt() == before) {
                    violate(QStringLiteral("ack-request-unanswered"), QStringLiteral("server <r/> was not answered with <a/>"));
                }
            }
            break;
        case RecvMsg:
            ++m.in;
            rig.serverSend("<message from='contact@example.org/x' type='chat' id='in" + QByteArray::number(++injected) + "'><body>hi</body></message>");
            absorbWire(nullptr, ctx);
            break;
        case RecvPres:
            ++m.in;
            rig.serverSend("<presence from='contact@example.org/x'/>");
            absorbWire(nullptr, ctx);
            break;
        case RecvIqResult:
            ++m.in;
            rig.serverSend("<iq from='example.org' type='result' id='nobody-asked'/>");
            absorbWire(nullptr, ctx);
            break;
        case SendIq: {
            QXmppIq iq(QXmppIq::Get);
            iq.setId(QStringLiteral("q1"));
            iq.setTo(QStringLiteral("example.org"));
            iqSent = true;
            rig.client->sendIq(std::move(iq)).then(&rig, [this](QXmppClient::IqResult &&) { ++iqCompletions; });
            rig.sync();
            absorbWire(nullptr, ctx);
            witness("tracked_iq_sent");
            break;
        }
        case RecvIqResultTracked:
            // an IQ response that completes a pending request is a stanza like any other: it counts towards h
            ++m.in;
            rig.serverSend("<iq from='example.org' type='result' id='q1'/>");
            absorbWire(nullptr, ctx);
            witness("tracked_iq_answered");
            break;
        case RecvIqGet:
            ++m.in;
            rig.serverSend("<iq from='example.org' type='get' id='srv" + QByteArray::number(++injected) + "'><query xmlns='urn:verif:unknown'/></iq>");
            absorbWire(nullptr, ctx);
            witness("iq_get_answered");
            break;
        case Drop:
            rig.server.closePeer(true);
            rig.sync();
            m.open = false;
            absorbWire(nullptr, ctx);
            witness("drops");
            break;
        case Resume0: case Resume1: case Resume2: case Resume3: case Resume5: {
            const int h = ackValue(ev);
            const int inBefore = m.in;
            if (!rig.reconnectClient()) {
                violate(QStringLiteral("reconnect-failed"), rig.error);
                break;
            }
            LoginOptions o;
            o.resumeAnswerH = h;
            o.smId = m.smId;
            const int resumeBefore = rig.resumeRequests.size();
            if (!rig.login(o)) {
                violate(QStringLiteral("negotiation-failed"), ctx + QStringLiteral(": ") + rig.error);
                break;
            }
            if (rig.resumeRequests.size() == resumeBefore) {
                violate(QStringLiteral("no-resume-request"), QStringLiteral("the client did not try to resume a resumable session"));
                break;
            }
            {
                QDomDocument d;
                QDomElement el;
                tagOf(rig.resumeRequests.last(), nullptr, &el, &d);
                if (el.attribute(QStringLiteral("h")).toInt() != inBefore) {
                    violate(QStringLiteral("handled-count-wrong"), QStringLiteral("<resume h='%1'/> but %2 stanzas were delivered on the session").arg(el.attribute(QStringLiteral("h"))).arg(inBefore));
                }
                if (el.attribute(QStringLiteral("previd")) != m.smId) {
                    violate(QStringLiteral("resume-previd-wrong"), QStringLiteral("previd is '%1'").arg(el.attribute(QStringLiteral("previd"))));
                }
            }
            markCovered(h);
            QList<QByteArray> expect;
            for (const auto &u : m.unacked) {
                expect << u.bytes;
            }
            m.open = rig.client->isConnected();
            if (!m.open) {
                violate(QStringLiteral("not-connected-after-resume"), QStringLiteral("client does not report a session after <resumed/>"));
            }
            // retransmitted stanzas keep their numbers
            auto keep = m.unacked;
            m.unacked.clear();
            const int outBefore = m.out;
            wirePos = rig.markFinal;
            absorbWire(&expect, ctx);
            // absorbWire numbered anything newer; restore the retransmitted entries in front
            auto newer = m.unacked;
            m.unacked = keep;
            for (auto &n : newer) {
                m.unacked.push_back(n);
            }
            Q_UNUSED(outBefore)
            witness("resumed");
            break;
        }
        case NewSm:
        case NewNoSm: {
            if (!rig.reconnectClient()) {
                violate(QStringLiteral("reconnect-failed"), rig.error);
                break;
            }
            LoginOptions o;
            o.offerSm = ev == NewSm;
            o.resumeAnswerH = -1;
            o.smId = QStringLiteral("sm%1").arg(++sessions + 1);
            if (!rig.login(o)) {
                violate(QStringLiteral("negotiation-failed"), ctx + QStringLiteral(": ") + rig.error);
                break;
            }
            m.open = rig.client->isConnected();
            if (!m.open) {
                violate(QStringLiteral("not-connected-after-login"), QStringLiteral("client does not report a session after a new login"));
            }
            m.in = 0;
            if (ev == NewSm) {
                m.sm = true;
                m.smId = o.smId;
                QList<QByteArray> expect;
                auto old = m.unacked;
                m.unacked.clear();
                m.out = 0;
                for (auto &u : old) {
                    expect << u.bytes;
                    m.unacked.push_back({ ++m.out, u.bytes, u.task });
                }
                wirePos = rig.markFinal;
                absorbWire(&expect, ctx);
                witness("new_session_with_sm");
            } else {
                m.sm = false;
                // the statement is silent about unacknowledged stanzas when the replacing session has no SM:
                // they must neither be reported acknowledged nor appear twice; stop tracking them as queued
                m.unacked.clear();
                m.out = 0;
                wirePos = rig.markFinal;
                absorbWire(nullptr, ctx);
                witness("new_session_without_sm");
            }
            break;
        }
        }
        checkTasks(ctx);
    }

    std::vector<int> enabled() const
    {
        std::vector<int> e;
        if (!res.violations.isEmpty()) {
            return e;   // do not extend violating histories
        }
        for (int t = 0; t < 3; ++t) {
            if (!tasks[t].sent && (t == 0 || tasks[t - 1].sent)) {
                e.push_back(SendM1 + t);
            }
        }
        if (!tasks[3].sent) {
            e.push_back(SendP);
        }
        if (m.open) {
            e.push_back(SendNonza);
            if (m.sm) {
                for (int a : { Ack0, Ack1, Ack2, Ack3, Ack5, Ack9 }) {
                    e.push_back(a);
                }
                e.push_back(ReqAck);
            }
            for (int r : { RecvMsg, RecvPres, RecvIqResult, RecvIqGet }) {
                e.push_back(r);
            }
            if (iqEvents) {
                e.push_back(iqSent ? RecvIqResultTracked : SendIq);
            }
            e.push_back(Drop);
        } else {
            if (m.canResume && m.sm) {
                for (int r : { Resume0, Resume1, Resume2, Resume3, Resume5 }) {
                    e.push_back(r);
                }
            }
            e.push_back(NewSm);
            e.push_back(NewNoSm);
        }
        return e;
    }

    QString canon() const
    {
        QStringList un;
        for (const auto &u : m.unacked) {
            un << QStringLiteral("%1:%2").arg(u.seq).arg(u.task);
        }
        QStringList ts;
        for (int t = 0; t < 4; ++t) {
            const auto &x = tasks[t];
            ts << QStringLiteral("%1%2%3%4%5%6").arg(x.sent).arg(x.reports).arg(x.acknowledged).arg(x.error).arg(x.modelCovered).arg(x.modelFailedAtSend);
        }
        return QStringLiteral("M open%1 sm%2 cr%3 out%4 in%5 un[%6] cov%7 | T %8 q%9%10 | I %11")
            .arg(m.open).arg(m.sm).arg(m.canResume).arg(m.out).arg(m.in).arg(un.join(QLatin1Char(','))).arg(m.covered.size())
            .arg(ts.join(QLatin1Char(' '))).arg(iqSent).arg(iqCompletions).arg(rig.coreSnapshot());
    }
};

}  // namespace

int main(int argc, char **argv)
{
    QCoreApplication app(argc, argv);
    Harness h;
    h.describe = [] {
        QJsonArray evs;
        for (int i = 0; i < NEV; ++i) {
            evs.append(QJsonObject { { QStringLiteral("id"), i }, { QStringLiteral("name"), QString::fromLatin1(evNames[i]) }, { QStringLiteral("deviation"), deviation(i) } });
        }
        return QJsonObject { { QStringLiteral("property"), QStringLiteral("C09") }, { QStringLiteral("events"), evs } };
    };
    h.run = [](const QJsonObject &config, const std::vector<int> &history, bool verbose) {
        Exec x(workerId());
        x.verbose = verbose;
        x.iqEvents = config.value(QStringLiteral("iq")).toBool(true);
        if (!x.firstLogin()) {
            x.violate(QStringLiteral("negotiation-failed"), QStringLiteral("first login: ") + x.rig.error);
        } else {
            for (int ev : history) {
                const auto en = x.enabled();
                if (std::find(en.begin(), en.end(), ev) == en.end()) {
                    x.res.violations.append(violation(QStringLiteral("C09/replay-diverged"), QStringLiteral("event %1 not enabled on replay").arg(QString::fromLatin1(evNames[ev]))));
                    break;
                }
                x.step(ev);
                if (!x.rig.error.isEmpty()) {
                    x.res.violations.append(violation(QStringLiteral("C09/harness-barrier"), x.rig.error));
                    break;
                }
            }
        }
        x.res.enabled = x.enabled();
        x.res.canon = x.canon();
        QStringList out;
        for (int t = 0; t < 4; ++t) {
            out << QStringLiteral("%1%2%3").arg(x.tasks[t].reports).arg(x.tasks[t].acknowledged).arg(x.tasks[t].error);
        }
        x.res.outcome = out.join(QLatin1Char('/')) + QStringLiteral(" un%1 open%2").arg(x.m.unacked.size()).arg(x.m.open);
        return x.res;
    };
    return workerMain(argc, argv, h);
}
