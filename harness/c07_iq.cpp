// C07 — every request completes exactly once, and only by a reply from the entity asked. BFS worker.
#include "QXmppIq.h"
#include "QXmppSendResult.h"
#include "clientrig.h"

using namespace verif;

namespace {

const QString OWN_BARE = QStringLiteral("user@example.org");
const QString OWN_FULL = QStringLiteral("user@example.org/r");

enum Expect { Must, MustNot, DontCare };

struct FromClass {
    const char *name;
    QString from;   // empty = attribute absent
    Expect expect;
};

struct Slot {
    const char *name;
    QString to;   // empty = own account
    QString id;
    std::vector<FromClass> froms;
};

std::vector<Slot> makeSlots()
{
    return {
        { "r1", QStringLiteral("contact@example.org/res"), QStringLiteral("r1"),
          { { "exact", QStringLiteral("contact@example.org/res"), Must },
            { "bare-of-addressee", QStringLiteral("contact@example.org"), MustNot },
            { "other-resource", QStringLiteral("contact@example.org/other"), MustNot },
            { "stranger", QStringLiteral("evil@example.net/x"), MustNot },
            { "absent", QString(), DontCare },
            { "own-bare", OWN_BARE, MustNot },
            { "own-domain", QStringLiteral("example.org"), MustNot } } },
        { "r2", QString(), QStringLiteral("r2"),
          { { "absent", QString(), Must },
            { "own-bare", OWN_BARE, Must },
            { "own-full", OWN_FULL, DontCare },
            { "own-domain", QStringLiteral("example.org"), DontCare },
            { "stranger", QStringLiteral("evil@example.net/x"), MustNot },
            { "contact", QStringLiteral("contact@example.org/res"), MustNot } } },
        { "r3", QStringLiteral("service.example.org"), QStringLiteral("r3"),
          { { "exact", QStringLiteral("service.example.org"), Must },
            { "resource-of-service", QStringLiteral("service.example.org/x"), MustNot },
            { "stranger", QStringLiteral("evil.example.net"), MustNot },
            { "own-bare", OWN_BARE, MustNot },
            { "absent", QString(), DontCare } } },
    };
}

enum Kind { KResult, KError, KGetSameId, NKIND };
const char *kindNames[] = { "result", "error", "get-with-same-id" };

struct Event {
    QString name;
    enum T { Send, Reply, DropConn, ReconnectResumed, ReconnectNewSm, ReconnectNewNoSm, Disconnect, Destroy } type;
    int slot = -1;
    int from = -1;
    int kind = 0;
    int deviation = 0;
};

std::vector<Event> buildEvents()
{
    std::vector<Event> ev;
    const auto sl = makeSlots();
    for (int s = 0; s < int(sl.size()); ++s) {
        ev.push_back({ QStringLiteral("send(%1)").arg(QString::fromLatin1(sl[s].name)), Event::Send, s });
    }
    for (int s = 0; s < int(sl.size()); ++s) {
        for (int f = 0; f < int(sl[s].froms.size()); ++f) {
            for (int k = 0; k < NKIND; ++k) {
                if (k == KGetSameId && sl[s].froms[f].expect != Must) {
                    continue;
                }
                ev.push_back({ QStringLiteral("reply(%1,%2,from=%3)").arg(QString::fromLatin1(sl[s].name), QString::fromLatin1(kindNames[k]), QString::fromLatin1(sl[s].froms[f].name)),
                               Event::Reply, s, f, k, sl[s].froms[f].expect == Must ? 0 : 1 });
            }
        }
    }
    ev.push_back({ QStringLiteral("drop connection"), Event::DropConn, -1, -1, 0, 1 });
    ev.push_back({ QStringLiteral("reconnect: resumed"), Event::ReconnectResumed });
    ev.push_back({ QStringLiteral("reconnect: new session with sm"), Event::ReconnectNewSm });
    ev.push_back({ QStringLiteral("reconnect: new session without sm"), Event::ReconnectNewNoSm });
    ev.push_back({ QStringLiteral("disconnectFromServer()"), Event::Disconnect });
    ev.push_back({ QStringLiteral("destroy client"), Event::Destroy });
    return ev;
}

struct SlotState {
    bool sent = false;
    int completions = 0;
    QString value;        // description of what completed it
    bool modelDone = false;
    QString modelValue;   // expected description ("" = any error)
    bool pendingReported = false;
};

struct Exec {
    ClientRig rig;
    std::vector<Slot> sl = makeSlots();
    std::vector<Event> events = buildEvents();
    SlotState st[3];
    bool open = false, sm = false, resumable = false, destroyed = false;
    int sessions = 0;
    RunResult res;

    explicit Exec(int worker) : rig(worker) { }
    // the client's destructor completes outstanding tasks, whose continuations touch members of this object
    ~Exec() { rig.client.reset(); }

    void violate(const QString &key, const QString &msg) { res.violations.append(violation(QStringLiteral("C07/") + key, msg)); }
    void witness(const char *k) { res.witness[QString::fromLatin1(k)] = res.witness.value(QString::fromLatin1(k)).toInt() + 1; }

    bool login(bool withSm, bool smResumable, int resumeH)
    {
        LoginOptions o;
        o.offerSm = withSm;
        o.smResumable = smResumable;
        o.resumeAnswerH = resumeH;
        o.smId = QStringLiteral("sm%1").arg(resumeH >= 0 ? sessions : ++sessions);
        if (!rig.login(o)) {
            violate(QStringLiteral("negotiation-failed"), rig.error);
            return false;
        }
        open = rig.client->isConnected();
        return true;
    }

    void expectAllPendingCancelled(const QString &ctx)
    {
        for (int s = 0; s < 3; ++s) {
            if (st[s].sent && !st[s].modelDone) {
                st[s].modelDone = true;
                st[s].modelValue = QStringLiteral("senderror");
                if (st[s].completions == 0) {
                    st[s].pendingReported = true;
                    violate(QStringLiteral("request-left-pending:") + ctx,
                            QStringLiteral("%1: request %2 is still pending although the session ended without the possibility of resumption").arg(ctx, QString::fromLatin1(sl[s].name)));
                }
            }
        }
    }

    void checkSlots(const QString &ctx)
    {
        for (int s = 0; s < 3; ++s) {
            auto &x = st[s];
            if (x.completions > 1) {
                violate(QStringLiteral("completed-twice"), QStringLiteral("%1: request %2 completed %3 times").arg(ctx, QString::fromLatin1(sl[s].name)).arg(x.completions));
            }
            if (x.completions >= 1 && !x.modelDone) {
                violate(QStringLiteral("completed-by-wrong-stanza"), QStringLiteral("%1: request %2 completed with [%3] although nothing that may complete it has happened")
                            .arg(ctx, QString::fromLatin1(sl[s].name), x.value));
            }
            if (x.modelDone && x.completions == 0 && !x.pendingReported) {
                violate(QStringLiteral("not-completed"), QStringLiteral("%1: request %2 must be complete (%3) but is still pending").arg(ctx, QString::fromLatin1(sl[s].name), x.modelValue));
            }
            if (x.modelDone && x.completions >= 1 && !x.modelValue.isEmpty() && x.value != x.modelValue) {
                violate(QStringLiteral("completed-with-wrong-value"), QStringLiteral("%1: request %2 completed with [%3], expected [%4]").arg(ctx, QString::fromLatin1(sl[s].name), x.value, x.modelValue));
            }
        }
    }

    void step(int evId)
    {
        const Event &e = events[size_t(evId)];
        const QString ctx = e.name;
        switch (e.type) {
        case Event::Send: {
            const int s = e.slot;
            QXmppIq iq(QXmppIq::Get);
            iq.setId(sl[s].id);
            iq.setTo(sl[s].to);
            st[s].sent = true;
            rig.client->sendIq(std::move(iq)).then(&rig, [this, s](QXmppClient::IqResult &&r) {
                auto &x = st[s];
                ++x.completions;
                if (auto *el = std::get_if<QDomElement>(&r)) {
                    x.value = QStringLiteral("result:%1:%2").arg(el->attribute(QStringLiteral("id")), el->firstChildElement().tagName());
                } else {
                    const auto &err = std::get<QXmppError>(r);
                    if (auto se = err.value<QXmppStanza::Error>()) {
                        x.value = QStringLiteral("stanzaerror:%1").arg(int(se->condition()));
                    } else if (err.holdsType<QXmpp::SendError>()) {
                        x.value = QStringLiteral("senderror");
                    } else {
                        x.value = QStringLiteral("othererror:") + err.description;
                    }
                }
            });
            rig.sync();
            witness("requests_sent");
            break;
        }
        case Event::Reply: {
            const int s = e.slot;
            const auto &fc = sl[s].froms[size_t(e.from)];
            QByteArray xml = "<iq id='" + sl[s].id.toUtf8() + "'";
            if (!fc.from.isEmpty()) {
                xml += " from='" + fc.from.toUtf8() + "'";
            }
            xml += " to='" + OWN_FULL.toUtf8() + "'";
            QString expectValue;
            if (e.kind == KResult) {
                xml += " type='result'><payload xmlns='urn:verif:payload'/></iq>";
                expectValue = QStringLiteral("result:%1:payload").arg(sl[s].id);
            } else if (e.kind == KError) {
                xml += " type='error'><error type='cancel'><item-not-found xmlns='urn:ietf:params:xml:ns:xmpp-stanzas'/></error></iq>";
                expectValue = QStringLiteral("stanzaerror:%1").arg(int(QXmppStanza::Error::ItemNotFound));
            } else {
                xml += " type='get'><payload xmlns='urn:verif:payload'/></iq>";
            }
            const bool pending = st[s].sent && !st[s].modelDone;
            const int before = st[s].completions;
            rig.serverSend(xml);
            if (pending) {
                Expect ex = fc.expect;
                if (e.kind == KGetSameId) {
                    ex = MustNot;
                }
                if (ex == Must) {
                    st[s].modelDone = true;
                    st[s].modelValue = expectValue;
                    witness("completed_by_reply");
                } else if (ex == MustNot) {
                    if (st[s].completions != before) {
                        violate(QStringLiteral("completed-by-wrong-sender:%1:%2").arg(QString::fromLatin1(sl[s].name), QString::fromLatin1(e.kind == KGetSameId ? "request-with-same-id" : fc.name)),
                                QStringLiteral("%1 completed request %2 (addressee '%3') with [%4]").arg(ctx, QString::fromLatin1(sl[s].name), sl[s].to, st[s].value));
                        st[s].modelDone = true;   // follow the implementation so that one defect is reported once
                        st[s].modelValue = st[s].value;
                    }
                    witness("wrong_sender_replies");
                } else {
                    if (st[s].completions != before) {
                        st[s].modelDone = true;
                        st[s].modelValue = st[s].value;
                    }
                    witness("dont_care_replies");
                }
            }
            break;
        }
        case Event::DropConn:
            rig.server.closePeer(true);
            rig.sync();
            open = false;
            if (!(sm && resumable)) {
                expectAllPendingCancelled(QStringLiteral("non-resumable drop"));
                witness("cancelled_by_drop");
            } else {
                witness("retained_over_drop");
            }
            break;
        case Event::Disconnect:
            rig.client->disconnectFromServer();
            rig.sync();
            open = false;
            resumable = false;
            expectAllPendingCancelled(QStringLiteral("disconnectFromServer"));
            break;
        case Event::ReconnectResumed:
            if (!rig.reconnectClient() || !login(true, true, 0)) {
                break;
            }
            witness("resumed");
            if (!open) {
                violate(QStringLiteral("not-connected-after-resume"), QStringLiteral("no session after <resumed/>"));
            }
            break;
        case Event::ReconnectNewSm:
        case Event::ReconnectNewNoSm:
            if (!rig.reconnectClient()) {
                violate(QStringLiteral("reconnect-failed"), rig.error);
                break;
            }
            sm = e.type == Event::ReconnectNewSm;
            resumable = sm;
            if (!login(sm, true, -1)) {
                break;
            }
            expectAllPendingCancelled(QStringLiteral("new session"));
            witness("new_session");
            break;
        case Event::Destroy:
            rig.client.reset();
            QCoreApplication::sendPostedEvents(nullptr, QEvent::DeferredDelete);
            QCoreApplication::processEvents();
            destroyed = true;
            open = false;
            expectAllPendingCancelled(QStringLiteral("client destroyed"));
            witness("destroyed");
            break;
        }
        checkSlots(ctx);
    }

    std::vector<int> enabled() const
    {
        std::vector<int> en;
        if (!res.violations.isEmpty() || destroyed) {
            return en;
        }
        for (int i = 0; i < int(events.size()); ++i) {
            const auto &e = events[size_t(i)];
            switch (e.type) {
            case Event::Send:
                if (open && !st[e.slot].sent) {
                    en.push_back(i);
                }
                break;
            case Event::Reply:
                // replies are interesting while the request is outstanding, and once after completion (duplicate)
                if (open && st[e.slot].sent) {
                    en.push_back(i);
                }
                break;
            case Event::DropConn:
            case Event::Disconnect:
                if (open) {
                    en.push_back(i);
                }
                break;
            case Event::ReconnectResumed:
                if (!open && sm && resumable) {
                    en.push_back(i);
                }
                break;
            case Event::ReconnectNewSm:
            case Event::ReconnectNewNoSm:
                if (!open) {
                    en.push_back(i);
                }
                break;
            case Event::Destroy:
                en.push_back(i);
                break;
            }
        }
        return en;
    }

    QString canon() const
    {
        QStringList s;
        for (int i = 0; i < 3; ++i) {
            s << QStringLiteral("%1%2%3[%4]").arg(st[i].sent).arg(st[i].completions).arg(st[i].modelDone).arg(st[i].value);
        }
        return QStringLiteral("M open%1 sm%2 res%3 dead%4 | %5 | %6").arg(open).arg(sm).arg(resumable).arg(destroyed).arg(s.join(QLatin1Char(' ')), destroyed ? QStringLiteral("-") : rig.coreSnapshot());
    }
};

}  // namespace

int main(int argc, char **argv)
{
    QCoreApplication app(argc, argv);
    Harness h;
    h.describe = [] {
        QJsonArray evs;
        const auto events = buildEvents();
        for (int i = 0; i < int(events.size()); ++i) {
            evs.append(QJsonObject { { QStringLiteral("id"), i }, { QStringLiteral("name"), events[size_t(i)].name }, { QStringLiteral("deviation"), events[size_t(i)].deviation } });
        }
        return QJsonObject { { QStringLiteral("property"), QStringLiteral("C07") }, { QStringLiteral("events"), evs } };
    };
    h.run = [](const QJsonObject &config, const std::vector<int> &history, bool) {
        Exec x(workerId());
        x.sm = config.value(QStringLiteral("sm")).toBool(true);
        x.resumable = x.sm && config.value(QStringLiteral("resumable")).toBool(true);
        if (!x.rig.listen() || !x.rig.connectClient(x.rig.baseConfig()) || !x.login(x.sm, x.resumable, -1)) {
            x.violate(QStringLiteral("negotiation-failed"), QStringLiteral("first login: ") + x.rig.error);
        } else {
            for (int ev : history) {
                const auto en = x.enabled();
                if (std::find(en.begin(), en.end(), ev) == en.end()) {
                    x.violate(QStringLiteral("replay-diverged"), QStringLiteral("event %1 not enabled on replay").arg(x.events[size_t(ev)].name));
                    break;
                }
                x.step(ev);
                if (!x.rig.error.isEmpty()) {
                    x.violate(QStringLiteral("harness-barrier"), x.rig.error);
                    break;
                }
            }
        }
        x.res.enabled = x.enabled();
        x.res.canon = x.canon();
        QStringList out;
        for (int i = 0; i < 3; ++i) {
            out << QStringLiteral("%1:%2").arg(x.st[i].completions).arg(x.st[i].value.section(QLatin1Char(':'), 0, 0));
        }
        x.res.outcome = out.join(QLatin1Char('/'));
        for (const auto &w : std::as_const(x.rig.events)) {
            x.res.obs << w;
        }
        return x.res;
    };
    return workerMain(argc, argv, h);
}
