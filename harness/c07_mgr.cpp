// C07(b) — every request API of the bundled managers completes exactly once, whatever the peer answers.
// Complete product of request API x reply script (per round: empty result / error / unexpected payload / echoed payload / silence, MAM pages)
// x wrong-sender prefix x encryption extension installed or not; a fresh real client session per case; a case ends with a
// non-resumable connection loss when the request is still pending.
#include "QXmppBitsOfBinaryDataList.h"
#include "QXmppDiscoveryIq.h"
#include "QXmppE2eeExtension.h"
#include "QXmppEntityTimeIq.h"
#include "QXmppExternalServiceDiscoveryIq.h"
#include "QXmppHttpUploadIq.h"
#include "QXmppMamIq.h"
#include "QXmppMixInvitation.h"
#include "QXmppMixParticipantItem.h"
#include "QXmppPresence.h"
#include "QXmppPubSubAffiliation.h"
#include "QXmppPubSubSubscription.h"
#include "QXmppRosterIq.h"
#include "QXmppFutureUtils_p.h"
#include "QXmppGeolocItem.h"
#include "QXmppMessage.h"
#include "QXmppMixConfigItem.h"
#include "QXmppMixInfoItem.h"
#include "QXmppPubSubBaseItem.h"
#include "QXmppPubSubNodeConfig.h"
#include "QXmppPubSubSubscribeOptions.h"
#include "QXmppTask.h"
#include "QXmppUserTuneItem.h"
#include "QXmppVCardIq.h"
#include "clientrig.h"
#include "enumctx.h"
#include "managers.h"

#include <QMimeDatabase>

#include <sys/wait.h>
#include <unistd.h>

using namespace verif;
using namespace QXmpp::Private;

namespace {

// An encryption extension that "decrypts" by returning the message unchanged; encrypted = has <encrypted xmlns='urn:verif:enc'/>.
class DummyE2ee : public QXmppE2eeExtension
{
public:
    QXmppTask<MessageEncryptResult> encryptMessage(QXmppMessage &&m, const std::optional<QXmppSendStanzaParams> &) override
    {
        return makeReadyTask<MessageEncryptResult>(std::make_unique<QXmppMessage>(std::move(m)));
    }
    QXmppTask<MessageDecryptResult> decryptMessage(QXmppMessage &&m) override
    {
        ++decryptions;
        return makeReadyTask<MessageDecryptResult>(QXmppMessage(std::move(m)));
    }
    QXmppTask<IqEncryptResult> encryptIq(QXmppIq &&, const std::optional<QXmppSendStanzaParams> &) override
    {
        return makeReadyTask<IqEncryptResult>(QXmppError { QStringLiteral("no iq encryption"), {} });
    }
    QXmppTask<IqDecryptResult> decryptIq(const QDomElement &) override
    {
        return makeReadyTask<IqDecryptResult>(NotEncrypted {});
    }
    bool isEncrypted(const QDomElement &e) override
    {
        return !e.firstChildElement(QStringLiteral("encrypted")).isNull();
    }
    bool isEncrypted(const QXmppMessage &) override { return false; }
    int decryptions = 0;
};

struct Session {
    explicit Session(int worker)
        : rig(worker, true)
    {
    }
    ClientRig rig;
    QObject context;
    int done = 0;

    template<typename T>
    void track(QXmppTask<T> task)
    {
        if constexpr (std::is_void_v<T>) {
            task.then(&context, [this]() { ++done; });
        } else {
            task.then(&context, [this](T &&) { ++done; });
        }
    }
    template<typename M>
    M *ext() const { return rig.client->findExtension<M>(); }
};

struct Api {
    const char *name;
    std::function<void(Session &)> call;
};

const QString SVC = QStringLiteral("pubsub.example.org");
const QString MIXSVC = QStringLiteral("mix.example.org");
const QString CH = QStringLiteral("channel@mix.example.org");
const QString CONTACT = QStringLiteral("contact@example.net");

const std::vector<Api> &apis()
{
    static const std::vector<Api> a = {
        { "blocking.fetchBlocklist", [](Session &s) { s.track(s.ext<QXmppBlockingManager>()->fetchBlocklist()); } },
        { "blocking.block", [](Session &s) { s.track(s.ext<QXmppBlockingManager>()->block(CONTACT)); } },
        { "blocking.unblock", [](Session &s) { s.track(s.ext<QXmppBlockingManager>()->unblock(CONTACT)); } },
        { "disco.requestDiscoInfo", [](Session &s) { s.track(s.ext<QXmppDiscoveryManager>()->requestDiscoInfo(CONTACT + QStringLiteral("/r"))); } },
        { "disco.requestDiscoItems", [](Session &s) { s.track(s.ext<QXmppDiscoveryManager>()->requestDiscoItems(QStringLiteral("example.org"))); } },
        { "time.requestEntityTime", [](Session &s) { s.track(s.ext<QXmppEntityTimeManager>()->requestEntityTime(CONTACT + QStringLiteral("/r"))); } },
        { "extdisco.requestServices", [](Session &s) { s.track(s.ext<QXmppExternalServiceDiscoveryManager>()->requestServices(QStringLiteral("example.org"))); } },
        { "mam.retrieveMessages", [](Session &s) { s.track(s.ext<QXmppMamManager>()->retrieveMessages()); } },
        { "mam.retrieveMessages(to)", [](Session &s) { s.track(s.ext<QXmppMamManager>()->retrieveMessages(CH)); } },
        { "mix.createChannel", [](Session &s) { s.track(s.ext<QXmppMixManager>()->createChannel(MIXSVC, QStringLiteral("channel"))); } },
        { "mix.createChannel(adhoc)", [](Session &s) { s.track(s.ext<QXmppMixManager>()->createChannel(MIXSVC)); } },
        { "mix.requestChannelJids", [](Session &s) { s.track(s.ext<QXmppMixManager>()->requestChannelJids(MIXSVC)); } },
        { "mix.requestChannelNodes", [](Session &s) { s.track(s.ext<QXmppMixManager>()->requestChannelNodes(CH)); } },
        { "mix.requestChannelConfiguration", [](Session &s) { s.track(s.ext<QXmppMixManager>()->requestChannelConfiguration(CH)); } },
        { "mix.updateChannelConfiguration", [](Session &s) { s.track(s.ext<QXmppMixManager>()->updateChannelConfiguration(CH, QXmppMixConfigItem())); } },
        { "mix.requestChannelInformation", [](Session &s) { s.track(s.ext<QXmppMixManager>()->requestChannelInformation(CH)); } },
        { "mix.updateChannelInformation", [](Session &s) { s.track(s.ext<QXmppMixManager>()->updateChannelInformation(CH, QXmppMixInfoItem())); } },
        { "mix.joinChannel", [](Session &s) { s.track(s.ext<QXmppMixManager>()->joinChannel(CH, QStringLiteral("nick"))); } },
        { "mix.updateNickname", [](Session &s) { s.track(s.ext<QXmppMixManager>()->updateNickname(CH, QStringLiteral("nick2"))); } },
        { "mix.updateSubscriptions", [](Session &s) { s.track(s.ext<QXmppMixManager>()->updateSubscriptions(CH)); } },
        { "mix.requestInvitation", [](Session &s) { s.track(s.ext<QXmppMixManager>()->requestInvitation(CH, CONTACT)); } },
        { "mix.requestAllowedJids", [](Session &s) { s.track(s.ext<QXmppMixManager>()->requestAllowedJids(CH)); } },
        { "mix.allowJid", [](Session &s) { s.track(s.ext<QXmppMixManager>()->allowJid(CH, CONTACT)); } },
        { "mix.disallowJid", [](Session &s) { s.track(s.ext<QXmppMixManager>()->disallowJid(CH, CONTACT)); } },
        { "mix.disallowAllJids", [](Session &s) { s.track(s.ext<QXmppMixManager>()->disallowAllJids(CH)); } },
        { "mix.requestBannedJids", [](Session &s) { s.track(s.ext<QXmppMixManager>()->requestBannedJids(CH)); } },
        { "mix.banJid", [](Session &s) { s.track(s.ext<QXmppMixManager>()->banJid(CH, CONTACT)); } },
        { "mix.unbanJid", [](Session &s) { s.track(s.ext<QXmppMixManager>()->unbanJid(CH, CONTACT)); } },
        { "mix.unbanAllJids", [](Session &s) { s.track(s.ext<QXmppMixManager>()->unbanAllJids(CH)); } },
        { "mix.requestParticipants", [](Session &s) { s.track(s.ext<QXmppMixManager>()->requestParticipants(CH)); } },
        { "mix.leaveChannel", [](Session &s) { s.track(s.ext<QXmppMixManager>()->leaveChannel(CH)); } },
        { "mix.deleteChannel", [](Session &s) { s.track(s.ext<QXmppMixManager>()->deleteChannel(CH)); } },
        { "moved.publishStatement", [](Session &s) { s.track(s.ext<QXmppMovedManager>()->publishStatement(QStringLiteral("new@example.net"))); } },
        { "moved.verifyStatement", [](Session &s) { s.track(s.ext<QXmppMovedManager>()->verifyStatement(QStringLiteral("old@example.net"), QStringLiteral("new@example.net"))); } },
        { "moved.notifyContact", [](Session &s) { s.track(s.ext<QXmppMovedManager>()->notifyContact(CONTACT, QStringLiteral("old@example.net"))); } },
        { "pubsub.requestNodes", [](Session &s) { s.track(s.ext<QXmppPubSubManager>()->requestNodes(SVC)); } },
        { "pubsub.createNode", [](Session &s) { s.track(s.ext<QXmppPubSubManager>()->createNode(SVC, QStringLiteral("n"))); } },
        { "pubsub.createNode(config)", [](Session &s) { s.track(s.ext<QXmppPubSubManager>()->createNode(SVC, QStringLiteral("n"), QXmppPubSubNodeConfig())); } },
        { "pubsub.createInstantNode", [](Session &s) { s.track(s.ext<QXmppPubSubManager>()->createInstantNode(SVC)); } },
        { "pubsub.deleteNode", [](Session &s) { s.track(s.ext<QXmppPubSubManager>()->deleteNode(SVC, QStringLiteral("n"))); } },
        { "pubsub.requestItemIds", [](Session &s) { s.track(s.ext<QXmppPubSubManager>()->requestItemIds(SVC, QStringLiteral("n"))); } },
        { "pubsub.requestItem", [](Session &s) { s.track(s.ext<QXmppPubSubManager>()->requestItem<QXmppPubSubBaseItem>(SVC, QStringLiteral("n"), QStringLiteral("i1"))); } },
        { "pubsub.requestItem(current)", [](Session &s) { s.track(s.ext<QXmppPubSubManager>()->requestItem<QXmppPubSubBaseItem>(SVC, QStringLiteral("n"), QXmppPubSubManager::Current)); } },
        { "pubsub.requestItems", [](Session &s) { s.track(s.ext<QXmppPubSubManager>()->requestItems<QXmppPubSubBaseItem>(SVC, QStringLiteral("n"))); } },
        { "pubsub.requestItems(ids)", [](Session &s) { s.track(s.ext<QXmppPubSubManager>()->requestItems<QXmppPubSubBaseItem>(SVC, QStringLiteral("n"), { QStringLiteral("i1"), QStringLiteral("i2") })); } },
        { "pubsub.publishItem", [](Session &s) { s.track(s.ext<QXmppPubSubManager>()->publishItem(SVC, QStringLiteral("n"), QXmppPubSubBaseItem(QStringLiteral("i1")))); } },
        { "pubsub.publishItems", [](Session &s) { s.track(s.ext<QXmppPubSubManager>()->publishItems(SVC, QStringLiteral("n"), QVector<QXmppPubSubBaseItem> { QXmppPubSubBaseItem(QStringLiteral("i1")), QXmppPubSubBaseItem(QStringLiteral("i2")) })); } },
        { "pubsub.retractItem", [](Session &s) { s.track(s.ext<QXmppPubSubManager>()->retractItem(SVC, QStringLiteral("n"), QStringLiteral("i1"))); } },
        { "pubsub.purgeItems", [](Session &s) { s.track(s.ext<QXmppPubSubManager>()->purgeItems(SVC, QStringLiteral("n"))); } },
        { "pubsub.requestSubscriptions", [](Session &s) { s.track(s.ext<QXmppPubSubManager>()->requestSubscriptions(SVC)); } },
        { "pubsub.requestNodeAffiliations", [](Session &s) { s.track(s.ext<QXmppPubSubManager>()->requestNodeAffiliations(SVC, QStringLiteral("n"))); } },
        { "pubsub.requestAffiliations", [](Session &s) { s.track(s.ext<QXmppPubSubManager>()->requestAffiliations(SVC)); } },
        { "pubsub.requestSubscribeOptions", [](Session &s) { s.track(s.ext<QXmppPubSubManager>()->requestSubscribeOptions(SVC, QStringLiteral("n"))); } },
        { "pubsub.setSubscribeOptions", [](Session &s) { s.track(s.ext<QXmppPubSubManager>()->setSubscribeOptions(SVC, QStringLiteral("n"), QXmppPubSubSubscribeOptions())); } },
        { "pubsub.requestNodeConfiguration", [](Session &s) { s.track(s.ext<QXmppPubSubManager>()->requestNodeConfiguration(SVC, QStringLiteral("n"))); } },
        { "pubsub.configureNode", [](Session &s) { s.track(s.ext<QXmppPubSubManager>()->configureNode(SVC, QStringLiteral("n"), QXmppPubSubNodeConfig())); } },
        { "pubsub.cancelNodeConfiguration", [](Session &s) { s.track(s.ext<QXmppPubSubManager>()->cancelNodeConfiguration(SVC, QStringLiteral("n"))); } },
        { "pubsub.subscribeToNode", [](Session &s) { s.track(s.ext<QXmppPubSubManager>()->subscribeToNode(SVC, QStringLiteral("n"), QStringLiteral("user@example.org"))); } },
        { "pubsub.unsubscribeFromNode", [](Session &s) { s.track(s.ext<QXmppPubSubManager>()->unsubscribeFromNode(SVC, QStringLiteral("n"), QStringLiteral("user@example.org"))); } },
        { "pubsub.requestFeatures", [](Session &s) { s.track(s.ext<QXmppPubSubManager>()->requestFeatures(SVC)); } },
        { "pubsub.requestOwnPepFeatures", [](Session &s) { s.track(s.ext<QXmppPubSubManager>()->requestOwnPepFeatures()); } },
        { "pubsub.requestOwnPepNodes", [](Session &s) { s.track(s.ext<QXmppPubSubManager>()->requestOwnPepNodes()); } },
        { "roster.addRosterItem", [](Session &s) { s.track(s.ext<QXmppRosterManager>()->addRosterItem(CONTACT, QStringLiteral("name"))); } },
        { "roster.removeRosterItem", [](Session &s) { s.track(s.ext<QXmppRosterManager>()->removeRosterItem(CONTACT)); } },
        { "roster.renameRosterItem", [](Session &s) { s.track(s.ext<QXmppRosterManager>()->renameRosterItem(CONTACT, QStringLiteral("name2"))); } },
        { "roster.subscribeTo", [](Session &s) { s.track(s.ext<QXmppRosterManager>()->subscribeTo(CONTACT)); } },
        { "roster.unsubscribeFrom", [](Session &s) { s.track(s.ext<QXmppRosterManager>()->unsubscribeFrom(CONTACT)); } },
        { "roster.requestRoster", [](Session &s) { s.track(s.ext<QXmppRosterManager>()->requestRoster()); } },
        { "upload.requestSlot", [](Session &s) { s.track(s.ext<QXmppUploadRequestManager>()->requestSlot(QStringLiteral("f.txt"), 10, QMimeDatabase().mimeTypeForName(QStringLiteral("text/plain")), QStringLiteral("upload.example.org"))); } },
        { "upload.requestSlot(no service)", [](Session &s) { s.track(s.ext<QXmppUploadRequestManager>()->requestSlot(QStringLiteral("f.txt"), 10, QMimeDatabase().mimeTypeForName(QStringLiteral("text/plain")))); } },
        { "location.request", [](Session &s) { s.track(s.ext<QXmppUserLocationManager>()->request(CONTACT)); } },
        { "location.publish", [](Session &s) { s.track(s.ext<QXmppUserLocationManager>()->publish(QXmppGeolocItem())); } },
        { "tune.request", [](Session &s) { s.track(s.ext<QXmppUserTuneManager>()->request(CONTACT)); } },
        { "tune.publish", [](Session &s) { s.track(s.ext<QXmppUserTuneManager>()->publish(QXmppTuneItem())); } },
        { "vcard.fetchVCard", [](Session &s) { s.track(s.ext<QXmppVCardManager>()->fetchVCard(CONTACT)); } },
        { "vcard.setVCard", [](Session &s) { s.track(s.ext<QXmppVCardManager>()->setVCard(QXmppVCardIq())); } },
        { "migration.exportData", [](Session &s) { s.track(s.ext<QXmppAccountMigrationManager>()->exportData()); } },
    };
    return a;
}

// reply kinds per round
enum Kind { EmptyResult, Error, Unexpected, Echo, Silence, MamFin0, MamFin1Plain, MamFin1Enc, MamFin2Mixed, NKINDS };
const char *kindNames[] = { "empty-result", "error", "unexpected-payload", "echoed-payload", "silence", "mam-fin-0", "mam-fin-1-plain", "mam-fin-1-encrypted", "mam-fin-2-mixed" };
const int NGENERIC = 5;

struct Case {
    int api;
    std::vector<int> script;   // kind per round; rounds after the end are silence
    bool wrongSenderFirst;
    bool e2ee;
    bool offlineFirst = false;   // the API is first called before the client ever connected (must complete with an error), then the case runs
};

QJsonObject caseJson(const Case &c)
{
    QJsonArray s;
    for (int k : c.script) {
        s.append(k);
    }
    return { { QStringLiteral("api"), c.api }, { QStringLiteral("api_name"), QString::fromLatin1(apis()[size_t(c.api)].name) }, { QStringLiteral("script"), s }, { QStringLiteral("wrong_sender_first"), c.wrongSenderFirst }, { QStringLiteral("e2ee"), c.e2ee }, { QStringLiteral("offline_first"), c.offlineFirst } };
}

QString scriptName(const Case &c)
{
    QStringList l;
    for (int k : c.script) {
        l << QString::fromLatin1(kindNames[k]);
    }
    return l.join(QLatin1Char(','));
}

struct Outcome {
    QString error;         // harness problem (internal)
    QString problem;       // property violation
    int done = 0;
    int requestsSeen = 0;
    bool mamUsed = false;
    bool completedBeforeLoss = false;
};

struct Request {
    QByteArray id, to, type, child;
    QString childNs, childName, queryId;
};

Outcome runOne(int worker, const Case &c, bool verbose)
{
    Outcome out;
    Session s(worker);
    for (int i = NDEFAULT; i < int(factories().size()); ++i) {
        s.rig.client->addExtension(factories()[size_t(i)].make(s.rig.client.get()));
    }
    DummyE2ee e2ee;
    if (c.e2ee) {
        s.rig.client->setEncryptionExtension(&e2ee);
    }
    if (!s.rig.listen()) {
        out.error = QStringLiteral("listen failed");
        return out;
    }
    if (c.offlineFirst) {
        // configure the account (so that the own JID is known) but do not connect
        s.rig.client->configuration() = s.rig.baseConfig();
        apis()[size_t(c.api)].call(s);
        QCoreApplication::processEvents();
        QCoreApplication::processEvents();
        if (s.done != 1) {
            out.problem = s.done == 0 ? QStringLiteral("never-completes-when-offline") : QStringLiteral("completed-%1-times-when-offline").arg(s.done);
            out.done = s.done;
            s.rig.client->setEncryptionExtension(nullptr);
            return out;
        }
        s.done = 0;
    }
    LoginOptions lo;
    lo.offerSm = false;
    if (!s.rig.connectClient(s.rig.baseConfig()) || !s.rig.login(lo)) {
        out.error = QStringLiteral("login failed: ") + s.rig.error;
        return out;
    }
    QSet<QByteArray> answered;
    auto collect = [&](const QList<QByteArray> &items) {
        QList<Request> reqs;
        for (const auto &it : items) {
            if (verbose && !it.trimmed().isEmpty()) {
                fprintf(stderr, "  C>S %s\n", it.left(400).constData());
            }
            if (!it.startsWith("<iq")) {
                continue;
            }
            QDomDocument d;
            const auto el = parseXml(QByteArray("<w xmlns='jabber:client'>") + it + "</w>", &d).firstChildElement();
            const auto type = el.attribute(QStringLiteral("type")).toUtf8();
            const auto id = el.attribute(QStringLiteral("id")).toUtf8();
            if ((type != "get" && type != "set") || answered.contains(id)) {
                continue;
            }
            Request r;
            r.id = id;
            r.to = el.attribute(QStringLiteral("to")).toUtf8();
            r.type = type;
            const auto ch = el.firstChildElement();
            if (!ch.isNull()) {
                QString str;
                QTextStream ts(&str);
                ch.save(ts, -1);
                r.child = str.toUtf8();
                r.childNs = ch.namespaceURI();
                r.childName = ch.tagName();
                r.queryId = ch.attribute(QStringLiteral("queryid"));
            }
            reqs << r;
        }
        return reqs;
    };
    auto send = [&](const QByteArray &data) {
        if (verbose) {
            fprintf(stderr, "  S>C %s\n", data.left(400).constData());
        }
        return s.rig.serverSend(data);
    };
    auto iqReply = [&](const Request &r, const QByteArray &from, const QByteArray &type, const QByteArray &payload) {
        QByteArray x = "<iq type='" + type + "' id='" + r.id + "'";
        if (!from.isEmpty()) {
            x += " from='" + from + "'";
        }
        return x + ">" + payload + "</iq>";
    };
    // the client's own start-up requests are refused first
    for (int round = 0; round < 8; ++round) {
        const auto reqs = collect(s.rig.sync());
        if (reqs.isEmpty()) {
            break;
        }
        for (const auto &r : reqs) {
            answered.insert(r.id);
            s.rig.server.write(iqReply(r, r.to, "error", "<error type='cancel'><service-unavailable xmlns='urn:ietf:params:xml:ns:xmpp-stanzas'/></error>"));
        }
    }
    s.rig.sync();

    apis()[size_t(c.api)].call(s);
    auto pending = collect(s.rig.sync());

    auto replyFor = [&](const Request &r, int kind, const QByteArray &from) -> QByteArray {
        const bool isMam = r.childNs == QLatin1String("urn:xmpp:mam:2") && r.childName == QLatin1String("query");
        auto mamMsg = [&](int n, bool enc) {
            return "<message from='" + (from.isEmpty() ? QByteArray("user@example.org") : from) + "' to='user@example.org/r'><result xmlns='urn:xmpp:mam:2' queryid='" + r.queryId.toUtf8() + "' id='a" + QByteArray::number(n) +
                "'><forwarded xmlns='urn:xmpp:forward:0'><delay xmlns='urn:xmpp:delay' stamp='2020-01-01T00:00:00Z'/><message xmlns='jabber:client' from='contact@example.net/r' to='user@example.org' type='chat'>" +
                (enc ? QByteArray("<encrypted xmlns='urn:verif:enc'/>") : QByteArray("<body>hi</body>")) + "</message></forwarded></result></message>";
        };
        const QByteArray fin = "<fin xmlns='urn:xmpp:mam:2' complete='true'><set xmlns='http://jabber.org/protocol/rsm'><count>0</count></set></fin>";
        switch (kind) {
        case EmptyResult:
            return iqReply(r, from, "result", {});
        case Error:
            return iqReply(r, from, "error", "<error type='cancel'><item-not-found xmlns='urn:ietf:params:xml:ns:xmpp-stanzas'/></error>");
        case Unexpected:
            return iqReply(r, from, "result", "<unexpected xmlns='urn:verif:unexpected'/>");
        case Echo:
            return iqReply(r, from, "result", r.child);
        case MamFin0:
            out.mamUsed |= isMam;
            return isMam ? iqReply(r, from, "result", fin) : QByteArray();
        case MamFin1Plain:
            out.mamUsed |= isMam;
            return isMam ? mamMsg(1, false) + iqReply(r, from, "result", fin) : QByteArray();
        case MamFin1Enc:
            out.mamUsed |= isMam;
            return isMam ? mamMsg(1, true) + iqReply(r, from, "result", fin) : QByteArray();
        case MamFin2Mixed:
            out.mamUsed |= isMam;
            return isMam ? mamMsg(1, true) + mamMsg(2, false) + iqReply(r, from, "result", fin) : QByteArray();
        default:
            return {};
        }
    };

    for (int round = 0; round < 8 && !pending.isEmpty(); ++round) {
        out.requestsSeen += pending.size();
        const int kind = round < int(c.script.size()) ? c.script[size_t(round)] : Silence;
        if (kind == Silence) {
            break;
        }
        QList<Request> next;
        for (const auto &r : pending) {
            answered.insert(r.id);
            if (round == 0 && c.wrongSenderFirst) {
                const int before = s.done;
                const auto forged = replyFor(r, kind, "mallory@evil.example/x");
                if (!forged.isEmpty()) {
                    next += collect(send(forged));
                    if (s.done != before) {
                        out.problem = QStringLiteral("completed-by-wrong-sender");
                    }
                }
            }
            const auto rep = replyFor(r, kind, r.to);
            if (!rep.isEmpty()) {
                next += collect(send(rep));
            }
        }
        pending = next;
    }
    out.completedBeforeLoss = s.done > 0;
    if (s.done == 0) {
        // the session ends and cannot be resumed
        s.rig.server.closePeer(false);
        s.rig.server.pumpUntil([&] { return !s.rig.client->isConnected() && s.rig.csock()->state() == QAbstractSocket::UnconnectedState; }, 3000);
        QCoreApplication::processEvents();
    }
    out.done = s.done;
    if (out.problem.isEmpty()) {
        if (s.done == 0) {
            out.problem = QStringLiteral("never-completes");
        } else if (s.done > 1) {
            out.problem = QStringLiteral("completed-%1-times").arg(s.done);
        }
    }
    if (verbose) {
        fprintf(stderr, "  done=%d requests=%d completedBeforeLoss=%d decryptions=%d\n", s.done, out.requestsSeen, out.completedBeforeLoss, e2ee.decryptions);
    }
    s.rig.client->setEncryptionExtension(nullptr);
    return out;
}

int g_markerFd = -1;

// Runs `body` in a forked child (a crash or sanitizer abort must not take the rest of the shard with it). The child reports the case
// it is about to run through a pipe; returns the wait status and the last reported case.
template<typename Body>
int forked(Body body, QByteArray *lastMarker)
{
    int pipefd[2];
    if (pipe(pipefd) != 0) {
        exit(3);
    }
    fflush(stdout);
    const pid_t pid = fork();
    if (pid == 0) {
        close(pipefd[0]);
        g_markerFd = pipefd[1];
        alarm(600);
        body();
        fflush(stdout);
        _exit(0);
    }
    close(pipefd[1]);
    QByteArray all;
    char buf[65536];
    ssize_t n;
    while ((n = read(pipefd[0], buf, sizeof buf)) > 0) {
        all.append(buf, int(n));
        if (all.size() > 1 << 20) {
            all = all.right(8192);
        }
    }
    close(pipefd[0]);
    int status = 0;
    waitpid(pid, &status, 0);
    const auto lines = all.split('\n');
    *lastMarker = lines.size() >= 2 ? lines[lines.size() - 2] : QByteArray();
    return status;
}

void marker(const Case &c)
{
    if (g_markerFd >= 0) {
        const QByteArray m = QJsonDocument(caseJson(c)).toJson(QJsonDocument::Compact) + "\n";
        if (write(g_markerFd, m.constData(), size_t(m.size())) < 0) {
            _exit(3);
        }
    }
}

Case caseFromJson(const QJsonObject &o)
{
    Case c;
    c.api = o.value(QStringLiteral("api")).toInt();
    for (const auto &v : o.value(QStringLiteral("script")).toArray()) {
        c.script.push_back(v.toInt());
    }
    c.wrongSenderFirst = o.value(QStringLiteral("wrong_sender_first")).toBool();
    c.e2ee = o.value(QStringLiteral("e2ee")).toBool();
    c.offlineFirst = o.value(QStringLiteral("offline_first")).toBool();
    return c;
}

}  // namespace

int main(int argc, char **argv)
{
    QCoreApplication app(argc, argv);
    EnumCtx ctx;
    ctx.parseArgs(argc, argv);
    ctx.maxViolationsPerKey = 1;

    auto evalCase = [](EnumCtx &ctx, const Case &c) {
        marker(c);
        Outcome o = runOne(ctx.shard, c, ctx.verbose);
        if (!o.error.isEmpty()) {
            o = runOne(ctx.shard, c, ctx.verbose);
            if (!o.error.isEmpty()) {
                fprintf(stderr, "INTERNAL: %s\n", qPrintable(o.error));
                _exit(3);
            }
        }
        ++ctx.evaluations;
        ++ctx.nontrivial;
        ctx.count(o.completedBeforeLoss ? QStringLiteral("completed_by_reply_or_send") : QStringLiteral("completed_by_connection_loss"));
        if (o.requestsSeen > 1) {
            ctx.count(QStringLiteral("multi_request_cases"));
        }
        if (o.mamUsed) {
            ctx.count(QStringLiteral("mam_page_cases"));
        }
        if (c.offlineFirst) {
            ctx.count(QStringLiteral("offline_first_cases"));
        }
        ctx.outcome(QStringLiteral("%1/%2/%3/%4").arg(c.api).arg(o.done).arg(o.requestsSeen).arg(o.completedBeforeLoss));
        if (!o.problem.isEmpty()) {
            const QString key = QStringLiteral("C07/manager-request-%1:%2:%3:e2ee=%4").arg(o.problem, QString::fromLatin1(apis()[size_t(c.api)].name), c.script.empty() ? QStringLiteral("silence") : QString::fromLatin1(kindNames[c.script[0]])).arg(c.e2ee);
            ctx.violation(key, QStringLiteral("%1 answered with [%2]%3, encryption extension %4: the returned task %5 (completions: %6, request IQs seen: %7)")
                                   .arg(QString::fromLatin1(apis()[size_t(c.api)].name), scriptName(c), (c.offlineFirst ? QStringLiteral(" (after the same call was made while offline)") : QString()) + (c.wrongSenderFirst ? QStringLiteral(" after a forged reply from a stranger") : QString()),
                                        c.e2ee ? QStringLiteral("installed") : QStringLiteral("absent"), o.problem)
                                   .arg(o.done)
                                   .arg(o.requestsSeen),
                          caseJson(c));
        }
    };
    auto reportDeath = [&](int status, const QByteArray &lastMarker) {
        const auto o = QJsonDocument::fromJson(lastMarker).object();
        const Case c = caseFromJson(o);
        const bool hang = WIFSIGNALED(status) && WTERMSIG(status) == SIGALRM;
        if (WIFEXITED(status) && WEXITSTATUS(status) == 3) {
            fprintf(stderr, "INTERNAL: child reported an internal error\n");
            exit(3);
        }
        const QString key = QStringLiteral("C07/manager-request-%1:%2:%3:e2ee=%4").arg(hang ? QStringLiteral("hangs") : QStringLiteral("crashes-the-client"), QString::fromLatin1(apis()[size_t(c.api)].name), c.script.empty() ? QStringLiteral("silence") : QString::fromLatin1(kindNames[c.script[0]])).arg(c.e2ee);
        ctx.violation(key, QStringLiteral("%1 answered with [%2], encryption extension %3: the process died (wait status %4)").arg(QString::fromLatin1(apis()[size_t(c.api)].name), scriptName(c), c.e2ee ? QStringLiteral("installed") : QStringLiteral("absent")).arg(status), o);
    };

    if (ctx.replay) {
        const Case c = caseFromJson(ctx.replayCase);
        QByteArray last;
        const int status = forked([&] {
            EnumCtx child;
            child.verbose = true;
            child.maxViolationsPerKey = 1;
            evalCase(child, c);
            child.finish();
        }, &last);
        if (!(WIFEXITED(status) && WEXITSTATUS(status) == 0)) {
            reportDeath(status, last);
        }
        return ctx.finish();
    }

    const int maxLen = ctx.thorough() ? 3 : 2;
    if (ctx.shard == 0) {
        ctx.count(QStringLiteral("apis"), qint64(apis().size()));
    }
    for (int a = 0; a < int(apis().size()); ++a) {
        const bool isMam = QByteArray(apis()[size_t(a)].name).startsWith("mam.");
        const int nk = isMam ? int(NKINDS) : NGENERIC;
        // all scripts of length <= maxLen that do not continue after a silence
        std::vector<std::vector<int>> scripts = { {} };
        for (size_t i = 0; i < scripts.size(); ++i) {
            const auto base = scripts[i];
            if (int(base.size()) >= maxLen) {
                continue;
            }
            for (int k = 0; k < nk; ++k) {
                if (k == Silence) {
                    continue;   // silence = end of script
                }
                auto sc = base;
                sc.push_back(k);
                scripts.push_back(sc);
            }
        }
        std::vector<Case> cases;
        for (const auto &sc : scripts) {
            for (int w = 0; w < 2; ++w) {
                if (w == 1 && sc.empty()) {
                    continue;
                }
                for (int e = 0; e < 2; ++e) {
                    if (ctx.mine()) {
                        cases.push_back(Case { a, sc, w == 1, e == 1 });
                    }
                    // the same call made once before the client ever connected
                    if (w == 0 && sc.size() <= 1 && ctx.mine()) {
                        cases.push_back(Case { a, sc, false, e == 1, true });
                    }
                }
            }
        }
        // one forked child per (API, shard); after a death the remaining cases of this API continue in a new child
        size_t next = 0;
        while (next < cases.size()) {
            QByteArray last;
            const int status = forked([&] {
                EnumCtx child;
                child.shard = ctx.shard;
                child.tier = ctx.tier;
                child.maxViolationsPerKey = 1;
                for (size_t i = next; i < cases.size(); ++i) {
                    evalCase(child, cases[i]);
                    if (child.samples.size() < 1 && cases[i].script.size() == 2 && a % 17 == 3) {
                        child.sample(caseJson(cases[i]));
                    }
                }
                child.finish();
            }, &last);
            if (WIFEXITED(status) && WEXITSTATUS(status) == 0) {
                break;
            }
            reportDeath(status, last);
            ++ctx.evaluations;
            ++ctx.nontrivial;
            // continue after the case that died
            const Case dead = caseFromJson(QJsonDocument::fromJson(last).object());
            size_t i = next;
            for (; i < cases.size(); ++i) {
                if (cases[i].script == dead.script && cases[i].wrongSenderFirst == dead.wrongSenderFirst && cases[i].e2ee == dead.e2ee && cases[i].offlineFirst == dead.offlineFirst) {
                    break;
                }
            }
            next = i + 1;
        }
    }
    return ctx.finish();
}
