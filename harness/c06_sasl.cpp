// C06 — SASL exchanges follow their RFCs; a server that cannot prove itself is refused.
// Part A: the real QXmppSaslClient objects are run over a credential/salt/iteration/nonce grid and every message is
//         printed as a "vector" line; Python (hashlib/hmac, written from the RFCs) recomputes them.
// Part B: every server message sequence up to depth 3 over a refusal alphabet is played against the real
//         SaslManager / Sasl2Manager; an independent SCRAM/DIGEST server model decides what may be reported.
#include "QXmppConfiguration.h"
#include "QXmppSaslManager_p.h"
#include "QXmppSasl_p.h"
#include "XmppSocket.h"
#include "enumctx.h"

#include <QMessageAuthenticationCode>
#include <QPasswordDigestor>

using namespace verif;
using namespace QXmpp::Private;

namespace {

struct Rec : public SendDataInterface {
    QList<QByteArray> sent;
    bool sendData(const QByteArray &d) override
    {
        sent << d;
        return true;
    }
};

const QByteArray CLIENT_NONCE = "fyko+d2lbbFgONRv9qkxdawL";
QXmppLoggable *g_log = nullptr;

QString b64(const QByteArray &b) { return QString::fromLatin1(b.toBase64()); }

QCryptographicHash::Algorithm algOf(const QString &mech)
{
    if (mech == QLatin1String("SCRAM-SHA-1")) {
        return QCryptographicHash::Sha1;
    }
    if (mech == QLatin1String("SCRAM-SHA-256")) {
        return QCryptographicHash::Sha256;
    }
    if (mech == QLatin1String("SCRAM-SHA-512")) {
        return QCryptographicHash::Sha512;
    }
    return QCryptographicHash::Sha3_512;
}

// ------------------------------------------------------------------ part A
void emitVector(EnumCtx &ctx, const QJsonObject &v)
{
    QJsonObject o = v;
    o[QStringLiteral("type")] = QStringLiteral("vector");
    putJson(o);
    ++ctx.evaluations;
    ++ctx.nontrivial;
}

std::unique_ptr<QXmppSaslClient> makeClient(const QString &mech, const QString &user, const QString &password, const QString &tokenSecret = {})
{
    auto m = SaslMechanism::fromString(mech);
    if (!m) {
        fprintf(stderr, "INTERNAL: unknown mechanism %s\n", qPrintable(mech));
        exit(3);
    }
    auto c = QXmppSaslClient::create(*m, g_log);
    c->setHost(QStringLiteral("example.org"));
    c->setServiceType(QStringLiteral("xmpp"));
    c->setUsername(user);
    Credentials cr;
    cr.password = password;
    if (!tokenSecret.isEmpty()) {
        HtToken t;
        t.mechanism = *SaslHtMechanism::fromString(mech);
        t.secret = tokenSecret;
        t.expiry = QDateTime::fromSecsSinceEpoch(4102444800LL);
        cr.htToken = t;
    }
    c->setCredentials(cr);
    return c;
}

void gridScram(EnumCtx &ctx, const QString &mech, const QString &user, const QString &pass, const QByteArray &salt, int iters, const QByteArray &ext)
{
    QXmppSaslDigestMd5::setNonce(CLIENT_NONCE);
    auto c = makeClient(mech, user, pass);
    const auto first = c->respond({});
    QJsonObject v { { QStringLiteral("kind"), QStringLiteral("scram") }, { QStringLiteral("mech"), mech }, { QStringLiteral("user"), user }, { QStringLiteral("password"), pass },
                    { QStringLiteral("salt"), b64(salt) }, { QStringLiteral("iterations"), iters }, { QStringLiteral("client_nonce"), QString::fromLatin1(CLIENT_NONCE) } };
    if (!first) {
        v[QStringLiteral("error")] = QStringLiteral("no client-first");
        emitVector(ctx, v);
        return;
    }
    const QByteArray serverFirst = "r=" + CLIENT_NONCE + ext + ",s=" + salt.toBase64() + ",i=" + QByteArray::number(iters);
    const auto fin = c->respond(serverFirst);
    v[QStringLiteral("client_first")] = b64(*first);
    v[QStringLiteral("server_first")] = b64(serverFirst);
    v[QStringLiteral("client_final")] = fin ? b64(*fin) : QStringLiteral("(refused)");
    emitVector(ctx, v);
}

void gridDigest(EnumCtx &ctx, const QString &user, const QString &pass, const QByteArray &realm, const QByteArray &nonce)
{
    QXmppSaslDigestMd5::setNonce(CLIENT_NONCE);
    auto c = makeClient(QStringLiteral("DIGEST-MD5"), user, pass);
    c->respond({});
    QByteArray challenge;
    if (!realm.isNull()) {
        QByteArray esc = realm;
        esc.replace("\\", "\\\\").replace("\"", "\\\"");
        challenge += "realm=\"" + esc + "\",";
    }
    challenge += "nonce=\"" + nonce + "\",qop=\"auth\",charset=utf-8,algorithm=md5-sess";
    const auto resp = c->respond(challenge);
    QJsonObject v { { QStringLiteral("kind"), QStringLiteral("digest") }, { QStringLiteral("user"), user }, { QStringLiteral("password"), pass }, { QStringLiteral("realm"), realm.isNull() ? QJsonValue() : QJsonValue(QString::fromUtf8(realm)) },
                    { QStringLiteral("nonce"), QString::fromLatin1(nonce) }, { QStringLiteral("cnonce"), QString::fromLatin1(CLIENT_NONCE) }, { QStringLiteral("response"), resp ? b64(*resp) : QStringLiteral("(refused)") } };
    emitVector(ctx, v);
}

void gridPlainHt(EnumCtx &ctx, const QString &mech, const QString &user, const QString &pass, const QString &token)
{
    auto c = makeClient(mech, user, pass, token);
    const auto r = c->respond({});
    emitVector(ctx, { { QStringLiteral("kind"), mech == QLatin1String("PLAIN") ? QStringLiteral("plain") : QStringLiteral("ht") }, { QStringLiteral("mech"), mech }, { QStringLiteral("user"), user },
                       { QStringLiteral("password"), pass }, { QStringLiteral("token"), token }, { QStringLiteral("response"), r ? b64(*r) : QStringLiteral("(refused)") } });
}

// ------------------------------------------------------------------ part B
enum Srv {
    SF_Honest, SF_BadNonce, SF_NonceNotExtended, SF_I0, SF_INeg, SF_INan, SF_NoS, SF_EmptyS, SF_NoR,
    FIN_Right, FIN_WrongSameLen, FIN_Truncated, FIN_EmptyV, FIN_MissingV, FIN_Error,
    SUC_Empty, SUC_RightFinal, SUC_WrongFinal, EXTRA_Challenge, FAILURE, NSRV
};
const char *srvNames[] = { "server-first(honest)", "server-first(nonce not from client)", "server-first(nonce not extended)", "server-first(i=0)", "server-first(i=-1)", "server-first(i=abc)",
                           "server-first(no salt)", "server-first(empty salt)", "server-first(no nonce)", "server-final(v right)", "server-final(v wrong, same length)", "server-final(v truncated)",
                           "server-final(v empty)", "server-final(no v)", "server-final(e=invalid-proof)", "<success/> empty", "<success> carrying right server-final", "<success> carrying wrong server-final",
                           "empty challenge", "<failure/>" };

struct ScramModel {
    QCryptographicHash::Algorithm alg;
    QByteArray password, salt;
    int iterations = 2;
    QByteArray clientFirstBare, serverFirst, fullNonce;
    QByteArray expectedClientFinal, serverSignature;

    void compute()
    {
        const QByteArray cfwp = "c=biws,r=" + fullNonce;
        const QByteArray salted = QPasswordDigestor::deriveKeyPbkdf2(alg, password, salt, iterations, QCryptographicHash::hashLength(alg));
        const QByteArray clientKey = QMessageAuthenticationCode::hash("Client Key", salted, alg);
        const QByteArray storedKey = QCryptographicHash::hash(clientKey, alg);
        const QByteArray authMessage = clientFirstBare + "," + serverFirst + "," + cfwp;
        QByteArray sig = QMessageAuthenticationCode::hash(authMessage, storedKey, alg);
        QByteArray proof(sig.size(), 0);
        for (int i = 0; i < sig.size(); ++i) {
            proof[i] = char(clientKey[i] ^ sig[i]);
        }
        expectedClientFinal = cfwp + ",p=" + proof.toBase64();
        const QByteArray serverKey = QMessageAuthenticationCode::hash("Server Key", salted, alg);
        serverSignature = QMessageAuthenticationCode::hash(authMessage, serverKey, alg);
    }
};

QJsonObject seqJson(const QString &mech, bool sasl2, const std::vector<int> &seq)
{
    QJsonArray names;
    for (int s : seq) {
        names.append(QString::fromLatin1(srvNames[s]));
    }
    return { { QStringLiteral("part"), QStringLiteral("b") }, { QStringLiteral("mech"), mech }, { QStringLiteral("sasl2"), sasl2 }, { QStringLiteral("seq"), toJsonArray(seq) }, { QStringLiteral("names"), names } };
}

QByteArray el(bool sasl2, const char *tag, const QByteArray &payload)
{
    if (sasl2) {
        if (QByteArray(tag) == "success") {
            return "<success xmlns='urn:xmpp:sasl:2'>" + (payload.isNull() ? QByteArray() : "<additional-data>" + payload.toBase64() + "</additional-data>") +
                "<authorization-identifier>user@example.org</authorization-identifier></success>";
        }
        if (QByteArray(tag) == "failure") {
            return "<failure xmlns='urn:xmpp:sasl:2'><not-authorized xmlns='urn:ietf:params:xml:ns:xmpp-sasl'/></failure>";
        }
        return QByteArray("<") + tag + " xmlns='urn:xmpp:sasl:2'>" + (payload.isEmpty() ? QByteArray("=") : payload.toBase64()) + "</" + tag + ">";
    }
    if (QByteArray(tag) == "failure") {
        return "<failure xmlns='urn:ietf:params:xml:ns:xmpp-sasl'><not-authorized/></failure>";
    }
    return QByteArray("<") + tag + " xmlns='urn:ietf:params:xml:ns:xmpp-sasl'>" + (payload.isNull() ? QByteArray() : (payload.isEmpty() ? QByteArray("=") : payload.toBase64())) + "</" + tag + ">";
}

void runScramSequence(EnumCtx &ctx, const QString &mech, bool sasl2, const std::vector<int> &seq)
{
    QXmppSaslDigestMd5::setNonce(CLIENT_NONCE);
    QXmppConfiguration config;
    config.setUser(QStringLiteral("user"));
    config.setDomain(QStringLiteral("example.org"));
    config.setPassword(QStringLiteral("pencil"));
    config.setDisabledSaslMechanisms({});
    Rec rec;
    QXmppLoggable loggable;
    int outcome = 0;   // 0 pending, 1 success, 2 error
    std::unique_ptr<SaslManager> m1;
    std::unique_ptr<Sasl2Manager> m2;
    if (!sasl2) {
        m1 = std::make_unique<SaslManager>(&rec);
        m1->authenticate(config, { mech }, &loggable).then(&loggable, [&](SaslManager::AuthResult &&r) { outcome = std::holds_alternative<QXmpp::Success>(r) ? 1 : 2; });
    } else {
        m2 = std::make_unique<Sasl2Manager>(&rec);
        Sasl2::StreamFeature f;
        f.mechanisms = { mech };
        m2->authenticate(Sasl2::Authenticate {}, config, f, &loggable).then(&loggable, [&](Sasl2Manager::AuthResult &&r) { outcome = std::holds_alternative<Sasl2::Success>(r) ? 1 : 2; });
    }
    ++ctx.evaluations;
    ++ctx.nontrivial;
    const auto cj = seqJson(mech, sasl2, seq);
    if (rec.sent.size() != 1) {
        ctx.violation(QStringLiteral("C06/no-initial-response"), QStringLiteral("authenticate() sent %1 elements").arg(rec.sent.size()), cj);
        return;
    }
    ScramModel model;
    model.alg = algOf(mech);
    model.password = "pencil";
    model.salt = QByteArray::fromHex("4125c247e43ab1e93c6dff76");
    model.clientFirstBare = "n=user,r=" + CLIENT_NONCE;
    // model: AwaitFirst -> AwaitFinal -> Verified
    enum { AwaitFirst, AwaitFinal, Verified } state = AwaitFirst;
    bool rightFinalDelivered = false, clientFinalSeen = false;
    int sentBefore = rec.sent.size();
    auto feed = [&](const QByteArray &xml) {
        QDomDocument d;
        const auto e = parseXml(xml, &d);
        if (m1) {
            m1->handleElement(e);
        } else {
            m2->handleElement(e);
        }
    };
    QStringList trace;
    const QString proto = sasl2 ? QStringLiteral("sasl2") : QStringLiteral("sasl");
    for (int s : seq) {
        if (outcome != 0) {
            break;   // the manager has finished; later elements would go elsewhere
        }
        QByteArray payload;
        const char *tag = "challenge";
        const QByteArray goodNonce = CLIENT_NONCE + "3rfcNHYJY1ZVvWVs7j";
        auto sf = [&](const QByteArray &r, const QByteArray &sB64, const QByteArray &i, bool withS = true, bool withR = true) {
            QByteArray x;
            if (withR) {
                x += "r=" + r + ",";
            }
            if (withS) {
                x += "s=" + sB64 + ",";
            }
            x += "i=" + i;
            return x;
        };
        const QByteArray sig = model.serverSignature.isEmpty() ? QByteArray(QCryptographicHash::hashLength(model.alg), 'x') : model.serverSignature;
        switch (s) {
        case SF_Honest: payload = sf(goodNonce, model.salt.toBase64(), "2"); break;
        case SF_BadNonce: payload = sf("Xyko+d2lbbFgONRv9qkxdawL3rfcNHYJY1ZVvWVs7j", model.salt.toBase64(), "2"); break;
        case SF_NonceNotExtended: payload = sf(CLIENT_NONCE, model.salt.toBase64(), "2"); break;
        case SF_I0: payload = sf(goodNonce, model.salt.toBase64(), "0"); break;
        case SF_INeg: payload = sf(goodNonce, model.salt.toBase64(), "-1"); break;
        case SF_INan: payload = sf(goodNonce, model.salt.toBase64(), "abc"); break;
        case SF_NoS: payload = sf(goodNonce, {}, "2", false); break;
        case SF_EmptyS: payload = sf(goodNonce, "", "2"); break;
        case SF_NoR: payload = sf({}, model.salt.toBase64(), "2", true, false); break;
        case FIN_Right: payload = "v=" + sig.toBase64(); break;
        case FIN_WrongSameLen: {
            QByteArray w = sig;
            w[0] = char(w[0] ^ 1);
            payload = "v=" + w.toBase64();
            break;
        }
        case FIN_Truncated: payload = "v=" + sig.left(sig.size() / 2).toBase64(); break;
        case FIN_EmptyV: payload = "v="; break;
        case FIN_MissingV: payload = "x=y"; break;
        case FIN_Error: payload = "e=invalid-proof"; break;
        case SUC_Empty: tag = "success"; payload = QByteArray(); break;
        case SUC_RightFinal: tag = "success"; payload = "v=" + sig.toBase64(); break;
        case SUC_WrongFinal: tag = "success"; payload = "v=" + QByteArray(sig.size(), 'x').toBase64(); break;
        case EXTRA_Challenge: payload = ""; break;
        case FAILURE: tag = "failure"; break;
        }
        const bool isSuccessEl = QByteArray(tag) == "success", isFailureEl = QByteArray(tag) == "failure";
        // classify the message in the current model state: 0 valid step, 1 must be refused, 2 success element, 3 failure, 4 don't care
        int cls = 1;
        bool maybeFirst = false;
        if (isFailureEl) {
            cls = 3;
        } else if (isSuccessEl) {
            cls = 2;
            if (state == AwaitFinal && clientFinalSeen && s == SUC_RightFinal) {
                rightFinalDelivered = true;   // the server-final message rides in the success element
            }
        } else if (state == AwaitFirst) {
            if (s == SF_Honest || s == SF_NonceNotExtended) {
                cls = s == SF_Honest ? 0 : 4;   // unextended nonce: the statement only demands refusal when the nonce does not extend the client's
                maybeFirst = true;
                model.serverFirst = payload;
                model.fullNonce = s == SF_Honest ? goodNonce : CLIENT_NONCE;
                model.compute();
            }
        } else if (state == AwaitFinal) {
            if (s == FIN_Right && clientFinalSeen) {
                cls = 0;
                rightFinalDelivered = true;
                state = Verified;
            }
        } else {
            cls = 4;   // after verification further challenges are outside the statement
        }
        trace << QString::fromLatin1(srvNames[s]);
        feed(el(sasl2, tag, payload));
        bool proofSent = false;
        for (int i = sentBefore; i < rec.sent.size(); ++i) {
            QDomDocument d;
            const auto e = parseXml(rec.sent[i], &d);
            const QByteArray resp = QByteArray::fromBase64(e.text().toLatin1());
            if (e.tagName() == QLatin1String("response") && resp.contains(",p=")) {
                proofSent = true;
                if (maybeFirst && resp == model.expectedClientFinal) {
                    clientFinalSeen = true;
                    state = AwaitFinal;
                    ctx.count(QStringLiteral("client_final_correct"));
                } else if (maybeFirst) {
                    ctx.violation(QStringLiteral("C06/scram-client-final-wrong"), QStringLiteral("%1 %2: client-final differs from the RFC 5802 value").arg(mech, proto), cj);
                } else {
                    ctx.violation(QStringLiteral("C06/proof-sent-after-invalid-server-message:%1").arg(QString::fromLatin1(srvNames[s])),
                                  QStringLiteral("%1 %2: after [%3] the client sent a client-final message").arg(mech, proto, trace.join(QLatin1Char(';'))), cj);
                }
            }
        }
        sentBefore = rec.sent.size();
        if (maybeFirst && !proofSent && s == SF_Honest) {
            ctx.violation(QStringLiteral("C06/honest-server-first-refused"), QStringLiteral("%1 %2: no client-final after an honest server-first").arg(mech, proto), cj);
        }
        if (outcome == 1 && !rightFinalDelivered) {
            ctx.violation(QStringLiteral("C06/scram-success-without-server-proof:") + QString::fromLatin1(srvNames[s]),
                          QStringLiteral("%1 %2: login reported successful after [%3] although no correct server signature was ever delivered").arg(mech, proto, trace.join(QLatin1Char(';'))), cj);
            break;
        }
        if (cls == 1 && outcome == 0) {
            ctx.violation(QStringLiteral("C06/invalid-server-message-not-refused:") + QString::fromLatin1(srvNames[s]),
                          QStringLiteral("%1 %2: after [%3] the manager keeps waiting instead of reporting an authentication error").arg(mech, proto, trace.join(QLatin1Char(';'))), cj);
            break;
        }
        if (cls == 3 && outcome != 2) {
            ctx.violation(QStringLiteral("C06/failure-not-reported"), QStringLiteral("%1 %2: <failure/> did not end in an authentication error").arg(mech, proto), cj);
            break;
        }
        if (cls == 2 && rightFinalDelivered && outcome != 1) {
            ctx.violation(QStringLiteral("C06/honest-success-not-reported"), QStringLiteral("%1 %2: [%3] did not report success").arg(mech, proto, trace.join(QLatin1Char(';'))), cj);
            break;
        }
    }
    ctx.count(outcome == 1 ? QStringLiteral("outcome_success") : (outcome == 2 ? QStringLiteral("outcome_error") : QStringLiteral("outcome_pending")));
    ctx.outcome(QStringLiteral("%1/%2/%3").arg(outcome).arg(rightFinalDelivered).arg(clientFinalSeen));
    m1.reset();
    m2.reset();
}

void runDigestRefusal(EnumCtx &ctx, int variant)
{
    // variant: 0 right rspauth, 1 wrong same length, 2 truncated, 3 empty, 4 missing, 5 success without rspauth
    const char *names[] = { "rspauth right", "rspauth wrong", "rspauth truncated", "rspauth empty", "rspauth missing", "<success/> before rspauth" };
    QXmppSaslDigestMd5::setNonce(CLIENT_NONCE);
    QXmppConfiguration config;
    config.setUser(QStringLiteral("user"));
    config.setDomain(QStringLiteral("example.org"));
    config.setPassword(QStringLiteral("pencil"));
    config.setDisabledSaslMechanisms({});
    Rec rec;
    QXmppLoggable loggable;
    int outcome = 0;
    SaslManager m(&rec);
    m.authenticate(config, { QStringLiteral("DIGEST-MD5") }, &loggable).then(&loggable, [&](SaslManager::AuthResult &&r) { outcome = std::holds_alternative<QXmpp::Success>(r) ? 1 : 2; });
    auto feed = [&](const QByteArray &xml) {
        QDomDocument d;
        m.handleElement(parseXml(xml, &d));
    };
    ++ctx.evaluations;
    ++ctx.nontrivial;
    const QJsonObject cj { { QStringLiteral("part"), QStringLiteral("digest-refusal") }, { QStringLiteral("variant"), variant } };
    const QByteArray nonce = "OA6MG9tEQGm2hh";
    feed(el(false, "challenge", "realm=\"example.org\",nonce=\"" + nonce + "\",qop=\"auth\",charset=utf-8,algorithm=md5-sess"));
    // expected rspauth computed independently (RFC 2831)
    auto md5 = [](const QByteArray &b) { return QCryptographicHash::hash(b, QCryptographicHash::Md5); };
    const QByteArray a1 = md5("user:example.org:pencil") + ":" + nonce + ":" + CLIENT_NONCE;
    const QByteArray a2 = ":xmpp/example.org";
    const QByteArray rsp = md5(md5(a1).toHex() + ":" + nonce + ":00000001:" + CLIENT_NONCE + ":auth:" + md5(a2).toHex()).toHex();
    QByteArray second;
    switch (variant) {
    case 0: second = "rspauth=" + rsp; break;
    case 1: second = "rspauth=" + QByteArray(rsp.size(), '0'); break;
    case 2: second = "rspauth=" + rsp.left(16); break;
    case 3: second = "rspauth="; break;
    case 4: second = "foo=bar"; break;
    case 5: break;
    }
    if (variant == 5) {
        feed(el(false, "success", QByteArray()));
    } else {
        feed(el(false, "challenge", second));
        if (outcome == 0) {
            feed(el(false, "success", QByteArray()));
        }
    }
    ctx.count(QStringLiteral("digest_refusal_cases"));
    if (variant == 0 && outcome != 1) {
        ctx.violation(QStringLiteral("C06/digest-honest-server-refused"), QStringLiteral("correct rspauth was not accepted"), cj);
    }
    if (variant >= 1 && variant <= 4 && outcome == 1) {
        ctx.violation(QStringLiteral("C06/digest-rspauth-not-verified:") + QString::fromLatin1(names[variant]), QStringLiteral("DIGEST-MD5 login reported successful with %1").arg(QString::fromLatin1(names[variant])), cj);
    }
    // variant 5 (success before the server proved itself): the statement demands server proof for SCRAM only -> not judged
}

}  // namespace

int main(int argc, char **argv)
{
    QCoreApplication app(argc, argv);
    EnumCtx ctx;
    ctx.parseArgs(argc, argv);
    QXmppLoggable loggable;
    g_log = &loggable;

    const QStringList scram = { QStringLiteral("SCRAM-SHA-1"), QStringLiteral("SCRAM-SHA-256"), QStringLiteral("SCRAM-SHA-512"), QStringLiteral("SCRAM-SHA3-512") };
    const QStringList users = { QStringLiteral("user"), QStringLiteral("a,b"), QStringLiteral("a=b"), QStringLiteral("Ünï世"), QStringLiteral("u s"), QString(64, QLatin1Char('x')), QStringLiteral("q\"uo\\te") };
    const QStringList passwords = { QStringLiteral("pencil"), QStringLiteral("p,=\"\\"), QStringLiteral("пароль"), QStringLiteral("\U0001F600"), QStringLiteral("x"), QString(200, QLatin1Char('y')) };
    const QList<QByteArray> salts = { QByteArray(1, 'z'), QByteArray::fromHex("00ff4125c247e43ab1e93c6dff76007f"), QByteArray(64, char(0x5a)) };
    const QList<int> iters = { 1, 2, 4096 };
    // (a nonce is any printable text without ','; "=3D" and "=2C" are ordinary characters there, not escapes)
    const QList<QByteArray> exts = { "3rfcNHYJY1ZVvWVs7j", "%hvYDpWUa2RaTCAfuxFIlj)hNlF$k0", "x", "=3Dabc=2Cdef", "2Cx" };

    if (ctx.replay) {
        const auto &r = ctx.replayCase;
        const auto part = r.value(QStringLiteral("part")).toString();
        if (part == QLatin1String("b")) {
            std::vector<int> seq;
            for (const auto &v : r.value(QStringLiteral("seq")).toArray()) {
                seq.push_back(v.toInt());
            }
            runScramSequence(ctx, r.value(QStringLiteral("mech")).toString(), r.value(QStringLiteral("sasl2")).toBool(), seq);
        } else if (part == QLatin1String("digest-refusal")) {
            runDigestRefusal(ctx, r.value(QStringLiteral("variant")).toInt());
        } else {
            // a vector: re-emit it, Python re-checks
            const auto kind = r.value(QStringLiteral("kind")).toString();
            if (kind == QLatin1String("scram")) {
                gridScram(ctx, r.value(QStringLiteral("mech")).toString(), r.value(QStringLiteral("user")).toString(), r.value(QStringLiteral("password")).toString(),
                          QByteArray::fromBase64(r.value(QStringLiteral("salt")).toString().toLatin1()), r.value(QStringLiteral("iterations")).toInt(),
                          QByteArray::fromBase64(r.value(QStringLiteral("server_first")).toString().toLatin1()).split(',').value(0).mid(2 + CLIENT_NONCE.size()));
            } else if (kind == QLatin1String("digest")) {
                gridDigest(ctx, r.value(QStringLiteral("user")).toString(), r.value(QStringLiteral("password")).toString(),
                           r.value(QStringLiteral("realm")).isNull() ? QByteArray() : r.value(QStringLiteral("realm")).toString().toUtf8(), r.value(QStringLiteral("nonce")).toString().toLatin1());
            } else {
                gridPlainHt(ctx, r.value(QStringLiteral("mech")).toString(), r.value(QStringLiteral("user")).toString(), r.value(QStringLiteral("password")).toString(), r.value(QStringLiteral("token")).toString());
            }
        }
        return ctx.finish();
    }

    // ---- part A
    for (const auto &mech : scram) {
        for (const auto &u : users) {
            for (const auto &p : passwords) {
                for (const auto &s : salts) {
                    for (int it : iters) {
                        if (it == 4096 && !ctx.thorough() && !(u == users[0] || p == passwords[0])) {
                            continue;   // quick: 4096 iterations only along the two axes through the plain credentials
                        }
                        for (const auto &e : exts) {
                            if (ctx.mine()) {
                                gridScram(ctx, mech, u, p, s, it, e);
                                ctx.count(QStringLiteral("scram_vectors"));
                            }
                        }
                    }
                }
            }
        }
    }
    for (const auto &u : users) {
        for (const auto &p : passwords) {
            for (const QByteArray &realm : { QByteArray(), QByteArray("example.org"), QByteArray("a\"b\\c") }) {
                for (const QByteArray &nonce : { QByteArray("OA6MG9tEQGm2hh"), QByteArray("n+/=") }) {
                    if (ctx.mine()) {
                        gridDigest(ctx, u, p, realm, nonce);
                        ctx.count(QStringLiteral("digest_vectors"));
                    }
                }
            }
            if (ctx.mine()) {
                gridPlainHt(ctx, QStringLiteral("PLAIN"), u, p, {});
                ctx.count(QStringLiteral("plain_vectors"));
            }
        }
        for (const auto &mech : { QStringLiteral("HT-SHA-256-NONE"), QStringLiteral("HT-SHA-512-NONE"), QStringLiteral("HT-SHA3-512-NONE") }) {
            for (const auto &tok : { QStringLiteral("secret-token-1"), QStringLiteral("töken世"), QString(100, QLatin1Char('t')) }) {
                if (ctx.mine()) {
                    gridPlainHt(ctx, mech, u, {}, tok);
                    ctx.count(QStringLiteral("ht_vectors"));
                }
            }
        }
    }
    // ---- part B: all server sequences up to depth D
    const int depth = ctx.opts.value(QStringLiteral("depth"), ctx.thorough() ? QStringLiteral("5") : QStringLiteral("3")).toInt();
    std::vector<int> seq;
    std::function<void()> rec = [&]() {
        if (!seq.empty()) {
            for (const auto &mech : { scram[0], scram[1] }) {
                for (int s2 = 0; s2 < 2; ++s2) {
                    if (ctx.mine()) {
                        runScramSequence(ctx, mech, bool(s2), seq);
                        if (int(seq.size()) == depth && ctx.samples.size() < 4 && seq[0] == SF_Honest && seq[1] == FIN_Right) {
                            ctx.sample(seqJson(mech, bool(s2), seq));
                        }
                    }
                }
            }
        }
        if (int(seq.size()) == depth) {
            return;
        }
        for (int s = 0; s < NSRV; ++s) {
            seq.push_back(s);
            rec();
            seq.pop_back();
        }
    };
    rec();
    for (int v = 0; v < 6; ++v) {
        if (ctx.mine()) {
            runDigestRefusal(ctx, v);
        }
    }
    return ctx.finish();
}
