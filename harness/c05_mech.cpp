// C05 — SASL mechanism choice. Real SaslManager / Sasl2Manager with a recording SendDataInterface; complete
// enumeration of offered lists x disabled sets x preferred x credentials x protocol variant against a
// reference function written from the property statement.
#include "QXmppConfiguration.h"
#include "QXmppSasl2UserAgent.h"
#include "QXmppSaslManager_p.h"
#include "QXmppSasl_p.h"
#include "XmppSocket.h"
#include "enumctx.h"

#include <algorithm>

using namespace verif;
using namespace QXmpp::Private;

struct Rec : public SendDataInterface {
    QList<QByteArray> sent;
    bool sendData(const QByteArray &d) override
    {
        sent << d;
        return true;
    }
};

static const QStringList NAMES = {
    QStringLiteral("SCRAM-SHA-1"), QStringLiteral("SCRAM-SHA-256"), QStringLiteral("SCRAM-SHA-512"), QStringLiteral("SCRAM-SHA3-512"),
    QStringLiteral("DIGEST-MD5"), QStringLiteral("PLAIN"), QStringLiteral("ANONYMOUS"),
    QStringLiteral("HT-SHA-256-NONE"), QStringLiteral("HT-SHA-256-ENDP"),
    QStringLiteral("X-FACEBOOK-PLATFORM"), QStringLiteral("SCRAM-SHA-2"), QStringLiteral("plain"),
    QStringLiteral("SCRAM-SHA-1-PLUS")   // a known name with a suffix (channel binding is not supported: never to be chosen)
};
static const QStringList DISABLE = { QStringLiteral("PLAIN"), QStringLiteral("SCRAM-SHA-1"), QStringLiteral("DIGEST-MD5"), QStringLiteral("ANONYMOUS"), QStringLiteral("HT-SHA-256-NONE") };
static const QStringList PREFERRED = { QString(), QStringLiteral("SCRAM-SHA-1"), QStringLiteral("SCRAM-SHA-256"), QStringLiteral("SCRAM-SHA-512"), QStringLiteral("SCRAM-SHA3-512"),
                                       QStringLiteral("DIGEST-MD5"), QStringLiteral("PLAIN"), QStringLiteral("ANONYMOUS"), QStringLiteral("HT-SHA-256-NONE"), QStringLiteral("X-UNKNOWN") };
// token variants: 0 none, 1 HT-SHA-256-NONE token, 2 HT-SHA-512-NONE token
enum Proto { Sasl1, Sasl2NoFast, Sasl2Fast, Sasl2FastClientOff, NPROTO };
static const char *protoNames[] = { "sasl1", "sasl2", "sasl2+fast", "sasl2+fast(client fast off)" };

struct Case {
    QStringList offered;   // ordered
    int disabledMask;
    int preferred;
    bool password;
    int token;
    int proto;
};

static int rankOf(const QString &m)
{
    if (m.startsWith(QLatin1String("HT-"))) {
        return 100;
    }
    if (m == QLatin1String("SCRAM-SHA3-512")) {
        return 54;
    }
    if (m == QLatin1String("SCRAM-SHA-512")) {
        return 53;
    }
    if (m == QLatin1String("SCRAM-SHA-256")) {
        return 52;
    }
    if (m == QLatin1String("SCRAM-SHA-1")) {
        return 51;
    }
    if (m == QLatin1String("DIGEST-MD5")) {
        return 40;
    }
    if (m == QLatin1String("PLAIN")) {
        return 30;
    }
    if (m == QLatin1String("ANONYMOUS")) {
        return 20;
    }
    return -1;
}

// Reference: returns the set of acceptable outcomes ("" = mismatch error, nothing sent).
static QStringList reference(const Case &c)
{
    QStringList disabled;
    for (int i = 0; i < DISABLE.size(); ++i) {
        if (c.disabledMask & (1 << i)) {
            disabled << DISABLE[i];
        }
    }
    QStringList offered = c.offered;
    if (c.proto == Sasl2FastClientOff) {
        // HT names are only offered inside the FAST feature, which the client does not use
        offered.erase(std::remove_if(offered.begin(), offered.end(), [](const QString &m) { return m.startsWith(QLatin1String("HT-")); }), offered.end());
    }
    const QString tokenMech = c.token == 1 ? QStringLiteral("HT-SHA-256-NONE") : (c.token == 2 ? QStringLiteral("HT-SHA-512-NONE") : QString());
    QStringList cand;
    for (const auto &m : offered) {
        if (rankOf(m) < 0 || disabled.contains(m)) {
            continue;
        }
        bool usable = false;
        if (m.startsWith(QLatin1String("HT-"))) {
            usable = m == tokenMech;   // ENDP needs channel binding, which is not supported
        } else if (m == QLatin1String("ANONYMOUS")) {
            usable = true;
        } else {
            usable = c.password;
        }
        if (usable && !cand.contains(m)) {
            cand << m;
        }
    }
    if (cand.isEmpty()) {
        return { QString() };
    }
    const QString pref = PREFERRED[c.preferred];
    if (!pref.isEmpty() && cand.contains(pref)) {
        return { pref };
    }
    int best = -1;
    for (const auto &m : cand) {
        best = std::max(best, rankOf(m));
    }
    QStringList acc;
    for (const auto &m : cand) {
        if (rankOf(m) == best) {
            acc << m;
        }
    }
    // SHA-512 vs SHA3-512: the statement orders SCRAM "by hash strength" and does not decide between the two
    // 512-bit hashes; accept either when both are candidates
    if ((best == 54 || best == 53) && cand.contains(QStringLiteral("SCRAM-SHA-512")) && cand.contains(QStringLiteral("SCRAM-SHA3-512"))) {
        acc = QStringList { QStringLiteral("SCRAM-SHA-512"), QStringLiteral("SCRAM-SHA3-512") };
    }
    return acc;
}

static QXmppLoggable *g_loggable = nullptr;

// Returns the chosen mechanism name, "" for mismatch error with nothing sent, or "!<text>" for anything else.
static QString observe(const Case &c)
{
    QXmppConfiguration config;
    config.setUser(QStringLiteral("user"));
    config.setDomain(QStringLiteral("example.org"));
    if (c.password) {
        config.setPassword(QStringLiteral("secret"));
    }
    if (c.token) {
        HtToken t;
        t.mechanism = *SaslHtMechanism::fromString(c.token == 1 ? QStringLiteral("HT-SHA-256-NONE") : QStringLiteral("HT-SHA-512-NONE"));
        t.secret = QStringLiteral("tokensecret");
        t.expiry = QDateTime::fromSecsSinceEpoch(4102444800LL);
        config.credentialData().htToken = t;
    }
    QStringList disabled;
    for (int i = 0; i < DISABLE.size(); ++i) {
        if (c.disabledMask & (1 << i)) {
            disabled << DISABLE[i];
        }
    }
    config.setDisabledSaslMechanisms(disabled);
    config.setSaslAuthMechanism(PREFERRED[c.preferred]);

    Rec rec;
    QString result;
    bool done = false;
    QString mechAttr;
    auto parseSent = [&](const char *tag) {
        if (rec.sent.size() != 1) {
            return QStringLiteral("!sent %1 elements").arg(rec.sent.size());
        }
        QDomDocument doc;
        auto el = parseXml(rec.sent.first(), &doc);
        if (el.isNull() || el.tagName() != QLatin1String(tag)) {
            return QStringLiteral("!unexpected element ") + QString::fromUtf8(rec.sent.first().left(80));
        }
        return el.attribute(QStringLiteral("mechanism"));
    };
    if (c.proto == Sasl1) {
        SaslManager m(&rec);
        auto task = m.authenticate(config, c.offered, g_loggable);
        if (task.isFinished()) {
            auto r = task.takeResult();
            if (auto *e = std::get_if<SaslManager::AuthError>(&r)) {
                if (e->second.type == QXmpp::AuthenticationError::MechanismMismatch && rec.sent.isEmpty()) {
                    return QString();
                }
                return QStringLiteral("!error type %1 sent %2: %3").arg(int(e->second.type)).arg(rec.sent.size()).arg(e->first);
            }
            return QStringLiteral("!finished with success");
        }
        return parseSent("auth");
    }
    Sasl2::StreamFeature feature;
    if (c.proto == Sasl2NoFast) {
        feature.mechanisms = c.offered;
    } else {
        FastFeature ff;
        for (const auto &m : c.offered) {
            if (m.startsWith(QLatin1String("HT-"))) {
                ff.mechanisms.push_back(m);
            } else {
                feature.mechanisms.push_back(m);
            }
        }
        ff.tls0rtt = false;
        feature.fast = ff;
    }
    config.setSasl2UserAgent(QXmppSasl2UserAgent(QUuid::fromString(QStringLiteral("d4565fa7-4d72-4749-b3d3-740edbf87770")), QStringLiteral("v"), QStringLiteral("d")));
    config.setUseFastTokenAuthentication(c.proto != Sasl2FastClientOff);
    Sasl2Manager m(&rec);
    auto task = m.authenticate(Sasl2::Authenticate {}, config, feature, g_loggable);
    if (task.isFinished()) {
        auto r = task.takeResult();
        if (auto *e = std::get_if<Sasl2Manager::AuthError>(&r)) {
            if (e->second.type == QXmpp::AuthenticationError::MechanismMismatch && rec.sent.isEmpty()) {
                return QString();
            }
            return QStringLiteral("!error type %1 sent %2: %3").arg(int(e->second.type)).arg(rec.sent.size()).arg(e->first);
        }
        return QStringLiteral("!finished with success");
    }
    return parseSent("authenticate");
}

static QJsonObject caseJson(const Case &c)
{
    return { { QStringLiteral("offered"), toJsonArray(c.offered) }, { QStringLiteral("disabledMask"), c.disabledMask }, { QStringLiteral("preferred"), c.preferred },
             { QStringLiteral("preferredName"), PREFERRED[c.preferred] }, { QStringLiteral("password"), c.password }, { QStringLiteral("token"), c.token },
             { QStringLiteral("proto"), c.proto }, { QStringLiteral("protoName"), QString::fromLatin1(protoNames[c.proto]) } };
}

static void evalCase(EnumCtx &ctx, const Case &c)
{
    const auto want = reference(c);
    const auto got = observe(c);
    ++ctx.evaluations;
    const bool nontrivial = c.offered.size() >= 2 && !want.contains(QString());
    if (nontrivial) {
        ++ctx.nontrivial;
    }
    if (ctx.evaluations % 4096 == 1) {
        ctx.outcome(got);
    }
    ctx.counters[QStringLiteral("chosen:") + (got.isEmpty() ? QStringLiteral("(mismatch)") : got.left(24))] += 1;
    if (!want.contains(got)) {
        QString kind;
        QStringList disabled;
        for (int i = 0; i < DISABLE.size(); ++i) {
            if (c.disabledMask & (1 << i)) {
                disabled << DISABLE[i];
            }
        }
        if (disabled.contains(got)) {
            kind = QStringLiteral("disabled-mechanism-used");
        } else if (got.startsWith(QLatin1Char('!'))) {
            kind = QStringLiteral("unexpected-behaviour");
        } else if (want.contains(QString())) {
            kind = QStringLiteral("sent-although-nothing-qualifies");
        } else if (got.isEmpty()) {
            kind = QStringLiteral("mismatch-although-candidate-exists");
        } else if (!PREFERRED[c.preferred].isEmpty() && want.first() == PREFERRED[c.preferred]) {
            kind = QStringLiteral("preferred-not-used");
        } else if (rankOf(got) < rankOf(want.first())) {
            kind = QStringLiteral("weaker-mechanism-chosen");
        } else {
            kind = QStringLiteral("wrong-mechanism-chosen");
        }
        ctx.violation(QStringLiteral("C05/") + kind + QLatin1Char(':') + QString::fromLatin1(protoNames[c.proto]).left(5),
                      QStringLiteral("offered [%1] disabled [%2] preferred '%3' password=%4 token=%5 %6: chose '%7', reference allows [%8]")
                          .arg(c.offered.join(QLatin1Char(',')), disabled.join(QLatin1Char(',')), PREFERRED[c.preferred])
                          .arg(c.password).arg(c.token).arg(QString::fromLatin1(protoNames[c.proto]), got, want.join(QLatin1Char('|'))),
                      caseJson(c));
    }
    if (ctx.verbose) {
        fprintf(stderr, "got '%s' want [%s]\n", qPrintable(got), qPrintable(want.join(QLatin1Char('|'))));
    }
}

int main(int argc, char **argv)
{
    QCoreApplication app(argc, argv);
    EnumCtx ctx;
    ctx.parseArgs(argc, argv);
    QXmppLoggable loggable;
    g_loggable = &loggable;

    if (ctx.replay) {
        Case c;
        for (const auto &v : ctx.replayCase.value(QStringLiteral("offered")).toArray()) {
            c.offered << v.toString();
        }
        c.disabledMask = ctx.replayCase.value(QStringLiteral("disabledMask")).toInt();
        c.preferred = ctx.replayCase.value(QStringLiteral("preferred")).toInt();
        c.password = ctx.replayCase.value(QStringLiteral("password")).toBool();
        c.token = ctx.replayCase.value(QStringLiteral("token")).toInt();
        c.proto = ctx.replayCase.value(QStringLiteral("proto")).toInt();
        evalCase(ctx, c);
        return ctx.finish();
    }

    // ordered offered lists
    std::vector<QStringList> lists;
    const int permMax = ctx.opts.value(QStringLiteral("perm"), ctx.thorough() ? QStringLiteral("4") : QStringLiteral("3")).toInt();
    const int n = NAMES.size();
    for (int mask = 0; mask < (1 << n); ++mask) {
        QStringList sub;
        for (int i = 0; i < n; ++i) {
            if (mask & (1 << i)) {
                sub << NAMES[i];
            }
        }
        if (sub.size() <= permMax) {
            std::vector<int> idx(size_t(sub.size()));
            for (size_t i = 0; i < idx.size(); ++i) {
                idx[i] = int(i);
            }
            do {
                QStringList l;
                for (int i : idx) {
                    l << sub[i];
                }
                lists.push_back(l);
            } while (std::next_permutation(idx.begin(), idx.end()));
        } else if (ctx.thorough() || sub.size() >= n - 1 || (mask % 7) == 0) {
            // larger subsets: ascending, descending, rotated (quick: every 7th subset + the near-full ones)
            lists.push_back(sub);
            QStringList rev = sub;
            std::reverse(rev.begin(), rev.end());
            lists.push_back(rev);
            QStringList rot = sub.mid(sub.size() / 2) + sub.mid(0, sub.size() / 2);
            lists.push_back(rot);
        }
    }
    if (ctx.shard == 0) {
        ctx.count(QStringLiteral("offered_lists"), qint64(lists.size()));
    }
    // duplicates inside the offer
    lists.push_back({ QStringLiteral("PLAIN"), QStringLiteral("SCRAM-SHA-1"), QStringLiteral("PLAIN"), QStringLiteral("SCRAM-SHA-1") });

    for (const auto &l : lists) {
        for (int dm = 0; dm < 32; ++dm) {
            if (!ctx.mine()) {
                continue;
            }
            for (int pref = 0; pref < PREFERRED.size(); ++pref) {
                for (int pw = 0; pw < 2; ++pw) {
                    for (int tok = 0; tok < 3; ++tok) {
                        for (int proto = 0; proto < NPROTO; ++proto) {
                            Case c { l, dm, pref, bool(pw), tok, proto };
                            evalCase(ctx, c);
                        }
                    }
                }
            }
            if (l.size() == 3 && dm == 1 && ctx.samples.size() < 4) {
                ctx.sample(caseJson(Case { l, dm, 2, true, 1, Sasl2Fast }));
            }
        }
    }
    return ctx.finish();
}
