// C14 — STUN codec: round trip over the attribute space, MESSAGE-INTEGRITY / FINGERPRINT against an independent
// HMAC-SHA1 (Qt's QMessageAuthenticationCode) and bitwise CRC-32, rejection of every tampered buffer, crash-freedom
// on bounded-exhaustive hostile inputs (ASan/UBSan build).
#include "QXmppStun.h"
#include "QXmppUtils.h"
#include "enumctx.h"

#include <QHostAddress>
#include <QMessageAuthenticationCode>
#include <QtEndian>

#include <functional>

using namespace verif;

struct Assign {
    QString group;
    QString name;
    std::function<void(QXmppStunMessage &)> set;
};

static QByteArray bytes(int n, int seed = 1)
{
    QByteArray b;
    for (int i = 0; i < n; ++i) {
        b.append(char((seed * 37 + i * 101) & 0xff));
    }
    return b;
}

static std::vector<Assign> alphabet()
{
    std::vector<Assign> a;
    const QHostAddress v4(QStringLiteral("192.0.2.33")), v4b(QStringLiteral("255.255.255.255")), v6(QStringLiteral("2001:db8::ff00:42:8329"));
    auto addr = [&](const char *g, QHostAddress QXmppStunMessage::*h, quint16 QXmppStunMessage::*p) {
        a.push_back({ QString::fromLatin1(g), QStringLiteral("%1=v4:1").arg(QString::fromLatin1(g)), [=](QXmppStunMessage &m) { m.*h = v4; m.*p = 1; } });
        a.push_back({ QString::fromLatin1(g), QStringLiteral("%1=v4max:65535").arg(QString::fromLatin1(g)), [=](QXmppStunMessage &m) { m.*h = v4b; m.*p = 65535; } });
        a.push_back({ QString::fromLatin1(g), QStringLiteral("%1=v6:8489").arg(QString::fromLatin1(g)), [=](QXmppStunMessage &m) { m.*h = v6; m.*p = 0x2129; } });
    };
    addr("mapped", &QXmppStunMessage::mappedHost, &QXmppStunMessage::mappedPort);
    addr("source", &QXmppStunMessage::sourceHost, &QXmppStunMessage::sourcePort);
    addr("changed", &QXmppStunMessage::changedHost, &QXmppStunMessage::changedPort);
    addr("other", &QXmppStunMessage::otherHost, &QXmppStunMessage::otherPort);
    addr("xorMapped", &QXmppStunMessage::xorMappedHost, &QXmppStunMessage::xorMappedPort);
    addr("xorPeer", &QXmppStunMessage::xorPeerHost, &QXmppStunMessage::xorPeerPort);
    addr("xorRelayed", &QXmppStunMessage::xorRelayedHost, &QXmppStunMessage::xorRelayedPort);
    for (quint32 v : { 0u, 6u, 0xffffffffu }) {
        a.push_back({ QStringLiteral("changeRequest"), QStringLiteral("changeRequest=%1").arg(v), [=](QXmppStunMessage &m) { m.setChangeRequest(v); } });
        a.push_back({ QStringLiteral("priority"), QStringLiteral("priority=%1").arg(v == 6 ? 1u : v), [=](QXmppStunMessage &m) { m.setPriority(v == 6 ? 1u : v); } });
        a.push_back({ QStringLiteral("lifetime"), QStringLiteral("lifetime=%1").arg(v == 6 ? 600u : v), [=](QXmppStunMessage &m) { m.setLifetime(v == 6 ? 600u : v); } });
    }
    for (int code : { 300, 401, 487, 699 }) {
        for (int len : { 0, 1, 2, 3, 4, 5 }) {
            if (code != 401 && len > 1) {
                continue;
            }
            const QString phrase = QStringLiteral("Unauthorized").left(len);
            a.push_back({ QStringLiteral("error"), QStringLiteral("error=%1/%2").arg(code).arg(phrase), [=](QXmppStunMessage &m) { m.errorCode = code; m.errorPhrase = phrase; } });
        }
    }
    a.push_back({ QStringLiteral("useCandidate"), QStringLiteral("useCandidate"), [](QXmppStunMessage &m) { m.useCandidate = true; } });
    for (quint16 c : { quint16(0), quint16(0x4000), quint16(0xffff) }) {
        a.push_back({ QStringLiteral("channel"), QStringLiteral("channel=%1").arg(c), [=](QXmppStunMessage &m) { m.setChannelNumber(c); } });
    }
    for (int n : { 0, 1, 2, 3, 4, 5, 1200 }) {
        a.push_back({ QStringLiteral("data"), QStringLiteral("data[%1]").arg(n), [=](QXmppStunMessage &m) { m.setData(bytes(n, 3)); } });
    }
    for (int n : { 0, 1, 2, 3, 4, 5, 9 }) {
        a.push_back({ QStringLiteral("nonce"), QStringLiteral("nonce[%1]").arg(n), [=](QXmppStunMessage &m) { m.setNonce(bytes(n, 5)); } });
    }
    const QString txt = QStringLiteral("abcdefghi");
    for (int n = 0; n <= 9; ++n) {
        a.push_back({ QStringLiteral("software"), QStringLiteral("software[%1]").arg(n), [=](QXmppStunMessage &m) { m.setSoftware(txt.left(n)); } });
        a.push_back({ QStringLiteral("username"), QStringLiteral("username[%1]").arg(n), [=](QXmppStunMessage &m) { m.setUsername(txt.left(n)); } });
    }
    a.push_back({ QStringLiteral("username"), QStringLiteral("username=ufrag:ufrag"), [](QXmppStunMessage &m) { m.setUsername(QStringLiteral("aB3d:Zz9/")); } });
    for (const QString &r : { QString(), QStringLiteral("r"), QStringLiteral("example.org"), QStringLiteral("réalm世") }) {
        a.push_back({ QStringLiteral("realm"), QStringLiteral("realm=%1").arg(r), [=](QXmppStunMessage &m) { m.setRealm(r); } });
    }
    for (quint8 t : { quint8(0), quint8(17), quint8(255) }) {
        a.push_back({ QStringLiteral("transport"), QStringLiteral("transport=%1").arg(t), [=](QXmppStunMessage &m) { m.setRequestedTransport(t); } });
    }
    a.push_back({ QStringLiteral("token"), QStringLiteral("token"), [](QXmppStunMessage &m) { m.setReservationToken(bytes(8, 9)); } });
    a.push_back({ QStringLiteral("iceRole"), QStringLiteral("iceControlling"), [](QXmppStunMessage &m) { m.iceControlling = bytes(8, 11); } });
    a.push_back({ QStringLiteral("iceRole"), QStringLiteral("iceControlled"), [](QXmppStunMessage &m) { m.iceControlled = bytes(8, 13); } });
    return a;
}

static QStringList diffMessages(const QXmppStunMessage &a, const QXmppStunMessage &b)
{
    QStringList d;
#define CMP(expr)                                  \
    if (!(a.expr == b.expr)) {                     \
        d << QStringLiteral(#expr);                \
    }
    CMP(type());
    CMP(cookie());
    CMP(id());
    CMP(changeRequest());
    CMP(channelNumber());
    CMP(data());
    CMP(lifetime());
    CMP(nonce());
    CMP(priority());
    CMP(realm());
    CMP(reservationToken());
    CMP(software());
    CMP(username());
    CMP(errorCode);
    CMP(errorPhrase);
    CMP(iceControlling);
    CMP(iceControlled);
    CMP(changedHost);
    CMP(changedPort);
    CMP(mappedHost);
    CMP(mappedPort);
    CMP(otherHost);
    CMP(otherPort);
    CMP(sourceHost);
    CMP(sourcePort);
    CMP(xorMappedHost);
    CMP(xorMappedPort);
    CMP(xorPeerHost);
    CMP(xorPeerPort);
    CMP(xorRelayedHost);
    CMP(xorRelayedPort);
    CMP(useCandidate);
#undef CMP
    // requestedTransport has no defined default value: compare only through the re-encoded bytes
    return d;
}

// ---- independent oracles ---------------------------------------------------------------
static quint32 crc32Bitwise(const QByteArray &in)
{
    quint32 crc = 0xffffffffu;
    for (char ch : in) {
        crc ^= quint8(ch);
        for (int k = 0; k < 8; ++k) {
            crc = (crc >> 1) ^ (0xedb88320u & (0u - (crc & 1u)));
        }
    }
    return ~crc;
}

struct Tlv {
    int offset;   // of the attribute header
    quint16 type;
    quint16 length;
};

static bool walk(const QByteArray &buf, std::vector<Tlv> &out)
{
    if (buf.size() < 20) {
        return false;
    }
    int pos = 20;
    while (pos + 4 <= buf.size()) {
        Tlv t;
        t.offset = pos;
        t.type = qFromBigEndian<quint16>(buf.constData() + pos);
        t.length = qFromBigEndian<quint16>(buf.constData() + pos + 2);
        out.push_back(t);
        pos += 4 + ((t.length + 3) / 4) * 4;
    }
    return pos == buf.size();
}

static void setLen(QByteArray &b, int bodyLen)
{
    qToBigEndian<quint16>(quint16(bodyLen), b.data() + 2);
}

// returns empty string when the encoded message agrees with RFC 5389 for key/fingerprint
static QString checkIntegrityAndFingerprint(const QByteArray &enc, const QByteArray &key, bool fp)
{
    std::vector<Tlv> tlvs;
    if (!walk(enc, tlvs)) {
        return QStringLiteral("encoded message is not a well-formed TLV sequence");
    }
    if (qFromBigEndian<quint16>(enc.constData() + 2) != enc.size() - 20) {
        return QStringLiteral("header length field wrong");
    }
    const Tlv *mi = nullptr, *fg = nullptr;
    for (const auto &t : tlvs) {
        if (t.type == 0x0008) {
            mi = &t;
        }
        if (t.type == 0x8028) {
            fg = &t;
        }
    }
    if (!key.isEmpty()) {
        if (!mi || mi->length != 20) {
            return QStringLiteral("MESSAGE-INTEGRITY missing");
        }
        QByteArray prefix = enc.left(mi->offset);
        setLen(prefix, mi->offset - 20 + 24);
        const QByteArray expect = QMessageAuthenticationCode::hash(prefix, key, QCryptographicHash::Sha1);
        if (enc.mid(mi->offset + 4, 20) != expect) {
            return QStringLiteral("MESSAGE-INTEGRITY differs from RFC 2104 HMAC-SHA1 (key length %1)").arg(key.size());
        }
    } else if (mi) {
        return QStringLiteral("MESSAGE-INTEGRITY present without key");
    }
    if (fp) {
        if (!fg || fg->length != 4 || fg->offset + 8 != enc.size()) {
            return QStringLiteral("FINGERPRINT missing or not last");
        }
        QByteArray prefix = enc.left(fg->offset);
        setLen(prefix, fg->offset - 20 + 8);
        const quint32 expect = crc32Bitwise(prefix) ^ 0x5354554eu;
        if (qFromBigEndian<quint32>(enc.constData() + fg->offset + 4) != expect) {
            return QStringLiteral("FINGERPRINT differs from CRC-32 xor 0x5354554e");
        }
    } else if (fg) {
        return QStringLiteral("FINGERPRINT present although disabled");
    }
    return {};
}

static QString classifyOffset(const QByteArray &enc, int byteOffset)
{
    if (byteOffset < 2) {
        return QStringLiteral("header-type");
    }
    if (byteOffset < 4) {
        return QStringLiteral("header-length");
    }
    if (byteOffset < 20) {
        return QStringLiteral("header-cookie-or-id");
    }
    std::vector<Tlv> tlvs;
    walk(enc, tlvs);
    for (const auto &t : tlvs) {
        const int end = t.offset + 4 + ((t.length + 3) / 4) * 4;
        if (byteOffset >= t.offset && byteOffset < end) {
            const QString an = t.type == 0x0008 ? QStringLiteral("integrity") : (t.type == 0x8028 ? QStringLiteral("fingerprint") : QStringLiteral("attr"));
            if (byteOffset < t.offset + 2) {
                return an + QStringLiteral("-type");
            }
            if (byteOffset < t.offset + 4) {
                return an + QStringLiteral("-length");
            }
            if (byteOffset >= t.offset + 4 + t.length) {
                return an + QStringLiteral("-padding");
            }
            return an + QStringLiteral("-value");
        }
    }
    return QStringLiteral("unknown");
}

static QByteArray fixedId()
{
    return QByteArray::fromHex("0102030405060708090a0b0c");
}

static QJsonObject caseOf(const QString &part, const QJsonObject &o)
{
    QJsonObject c = o;
    c[QStringLiteral("part")] = part;
    return c;
}

struct Ctx14 {
    EnumCtx &ctx;
    std::vector<Assign> alpha;
    QJsonArray vectors;   // (key, prefix, mac) triples re-checked by Python hmac/zlib
};

static QXmppStunMessage build(const std::vector<Assign> &alpha, const std::vector<int> &idx, quint16 type)
{
    QXmppStunMessage m;
    m.setType(type);
    m.setId(fixedId());
    for (int i : idx) {
        alpha[size_t(i)].set(m);
    }
    return m;
}

static QString names(const std::vector<Assign> &alpha, const std::vector<int> &idx)
{
    QStringList l;
    for (int i : idx) {
        l << alpha[size_t(i)].name;
    }
    return l.join(QLatin1Char(','));
}

static void roundTrip(Ctx14 &c, const std::vector<int> &idx, quint16 type, const QByteArray &key, bool fp)
{
    auto &ctx = c.ctx;
    const QXmppStunMessage m = build(c.alpha, idx, type);
    const QByteArray enc = m.encode(key, fp);
    ++ctx.evaluations;
    if (idx.size() >= 1) {
        ++ctx.nontrivial;
    }
    QJsonObject cj { { QStringLiteral("attrs"), toJsonArray(idx) }, { QStringLiteral("names"), names(c.alpha, idx) }, { QStringLiteral("type"), int(type) },
                     { QStringLiteral("keylen"), key.size() }, { QStringLiteral("fp"), fp } };
    const QString integ = checkIntegrityAndFingerprint(enc, key, fp);
    if (!integ.isEmpty()) {
        const QString k = integ.contains(QLatin1String("HMAC")) ? (key.size() > 64 ? QStringLiteral("C14/hmac-key-len>64") : QStringLiteral("C14/hmac-wrong")) : QStringLiteral("C14/encode-format");
        ctx.violation(k, integ + QStringLiteral(" for ") + names(c.alpha, idx), caseOf(QStringLiteral("roundtrip"), cj));
    }
    QXmppStunMessage d;
    QStringList errors;
    if (!d.decode(enc, key, &errors)) {
        ctx.violation(QStringLiteral("C14/own-output-rejected"), QStringLiteral("decode(encode(m)) failed: %1; attrs %2").arg(errors.join(QLatin1Char(';')), names(c.alpha, idx)),
                      caseOf(QStringLiteral("roundtrip"), cj));
        return;
    }
    const auto diff = diffMessages(m, d);
    if (!diff.isEmpty()) {
        ctx.violation(QStringLiteral("C14/roundtrip-field-differs:") + diff.join(QLatin1Char('+')),
                      QStringLiteral("fields %1 differ after decode(encode(m)); attrs %2").arg(diff.join(QLatin1Char(',')), names(c.alpha, idx)), caseOf(QStringLiteral("roundtrip"), cj));
    } else if (d.encode(key, fp) != enc) {
        ctx.violation(QStringLiteral("C14/reencode-differs"), QStringLiteral("encode(decode(encode(m))) != encode(m); attrs %1").arg(names(c.alpha, idx)), caseOf(QStringLiteral("roundtrip"), cj));
    }
    ctx.outcome(QString::fromLatin1(enc.left(64).toHex()));
    if (ctx.verbose) {
        fprintf(stderr, "roundtrip %s key=%d fp=%d -> %s\n", qPrintable(names(c.alpha, idx)), int(key.size()), fp, enc.toHex().constData());
    }
}

// tamper oracle: `mut` differs from `orig` (which carries a valid MESSAGE-INTEGRITY under key) somewhere in
// [0, end of MI attribute) (the header length bytes only count when the buffer kept its size) => decode(mut, key) must fail.
static void tamperCheck(Ctx14 &c, const QByteArray &orig, const QByteArray &mut, const QByteArray &key, int miEnd, const QJsonObject &cj, const QString &what)
{
    auto &ctx = c.ctx;
    ++ctx.evaluations;
    QXmppStunMessage d;
    const bool accepted = d.decode(mut, key);
    bool protectedDiffers = false;
    const int lim = qMin(miEnd, qMax(mut.size(), orig.size()));
    for (int i = 0; i < lim; ++i) {
        // the header length is adjusted before hashing, so a shortened buffer with a repaired length (FINGERPRINT stripped) can be
        // legitimate; an in-place corruption of the length bytes leaves a length that contradicts the datagram size
        if ((i == 2 || i == 3) && mut.size() != orig.size()) {
            continue;
        }
        if (i >= mut.size() || i >= orig.size() || mut[i] != orig[i]) {
            protectedDiffers = true;
            break;
        }
    }
    if (protectedDiffers) {
        ++ctx.nontrivial;
    }
    ctx.count(accepted ? QStringLiteral("tamper_accepted_total") : QStringLiteral("tamper_rejected_total"));
    if (accepted && protectedDiffers) {
        ctx.violation(QStringLiteral("C14/tampered-message-accepted:") + what,
                      QStringLiteral("a buffer that differs from the authenticated original in protected bytes (%1) is accepted under the key").arg(what), cj);
    }
}

static std::vector<std::vector<int>> representativeMessages(const std::vector<Assign> &alpha, int n)
{
    // binding-request-like, response-like, error, TURN-like messages built from the alphabet by name
    auto find = [&](const QString &nm) {
        for (size_t i = 0; i < alpha.size(); ++i) {
            if (alpha[i].name == nm) {
                return int(i);
            }
        }
        fprintf(stderr, "INTERNAL: no assignment %s\n", qPrintable(nm));
        exit(3);
    };
    std::vector<std::vector<int>> r;
    const QStringList specs = {
        QStringLiteral("username=ufrag:ufrag|priority=1|iceControlling"),
        QStringLiteral("username=ufrag:ufrag|priority=4294967295|iceControlled|useCandidate"),
        QStringLiteral("xorMapped=v4:1"),
        QStringLiteral("xorMapped=v6:8489|software[5]"),
        QStringLiteral("error=401/Unau|realm=example.org|nonce[9]"),
        QStringLiteral("username[3]"),
        QStringLiteral("lifetime=600|transport=17|username[7]|realm=r|nonce[5]"),
        QStringLiteral("channel=16384|xorPeer=v4:1"),
        QStringLiteral("data[5]|xorPeer=v6:8489"),
        QStringLiteral("mapped=v4:1|source=v4max:65535|changed=v4:1|other=v6:8489|changeRequest=6"),
        QStringLiteral("username[1]|software[9]|data[3]"),
        QStringLiteral("token|xorRelayed=v4max:65535|lifetime=0"),
    };
    for (int i = 0; i < n && i < specs.size(); ++i) {
        std::vector<int> idx;
        for (const auto &nm : specs[i].split(QLatin1Char('|'))) {
            idx.push_back(find(nm));
        }
        r.push_back(idx);
    }
    return r;
}

static int miEndOf(const QByteArray &enc)
{
    std::vector<Tlv> tlvs;
    walk(enc, tlvs);
    for (const auto &t : tlvs) {
        if (t.type == 0x0008) {
            return t.offset + 24;
        }
    }
    return -1;
}

int main(int argc, char **argv)
{
    QCoreApplication app(argc, argv);
    EnumCtx ctx;
    ctx.parseArgs(argc, argv);
    ctx.maxViolationsPerKey = 2;
    Ctx14 c { ctx, alphabet(), {} };
    const auto &alpha = c.alpha;
    const QByteArray key20 = bytes(20, 7);
    const int maxKeyLen = ctx.thorough() ? 300 : 100;
    const int nRep = ctx.thorough() ? 12 : 6;
    const auto reps = representativeMessages(alpha, nRep);
    const quint16 types[] = { 0x0001, 0x0101, 0x0111, 0x0003, 0x0016, 0x0009 };

    if (ctx.replay) {
        const auto rc = ctx.replayCase;
        const QString part = rc.value(QStringLiteral("part")).toString();
        std::vector<int> idx;
        for (const auto &v : rc.value(QStringLiteral("attrs")).toArray()) {
            idx.push_back(v.toInt());
        }
        const quint16 type = quint16(rc.value(QStringLiteral("type")).toInt());
        const QByteArray key = bytes(rc.value(QStringLiteral("keylen")).toInt(), 7);
        const bool fp = rc.value(QStringLiteral("fp")).toBool();
        if (part == QLatin1String("binkey")) {
            const QByteArray bkey = QByteArray::fromHex(rc.value(QStringLiteral("key")).toString().toLatin1());
            const QByteArray text = bytes(37, 5);
            ++ctx.evaluations;
            if (QXmppUtils::generateHmacSha1(bkey, text) != QMessageAuthenticationCode::hash(text, bkey, QCryptographicHash::Sha1) ||
                !checkIntegrityAndFingerprint(build(alpha, reps[0], 0x0001).encode(bkey, true), bkey, true).isEmpty()) {
                ctx.violation(QStringLiteral("C14/hmac-wrong-for-binary-key"), QStringLiteral("HMAC differs from RFC 2104 for binary key"), rc);
            }
        } else if (part == QLatin1String("roundtrip")) {
            roundTrip(c, idx, type, key, fp);
        } else {
            const QByteArray orig = build(alpha, idx, type).encode(key, fp);
            const QByteArray mut = QByteArray::fromHex(rc.value(QStringLiteral("mutated")).toString().toLatin1());
            const QByteArray dkey = rc.contains(QStringLiteral("wrongkey")) ? QByteArray::fromHex(rc.value(QStringLiteral("wrongkey")).toString().toLatin1()) : key;
            fprintf(stderr, "orig %s\nmut  %s\n", orig.toHex().constData(), mut.toHex().constData());
            if (rc.contains(QStringLiteral("wrongkey"))) {
                QXmppStunMessage d;
                ++ctx.evaluations;
                if (d.decode(orig, dkey)) {
                    ctx.violation(QStringLiteral("C14/accepted-under-wrong-key"), QStringLiteral("accepted under another key"), rc);
                }
            } else {
                tamperCheck(c, orig, mut, key, miEndOf(orig), rc, rc.value(QStringLiteral("what")).toString());
            }
        }
        return ctx.finish();
    }

    // ---- (i) round trip: singletons x types, pairs, all-set variants ------------------------
    for (size_t i = 0; i < alpha.size(); ++i) {
        for (quint16 t : types) {
            for (int k = 0; k < 4; ++k) {
                if (ctx.mine()) {
                    roundTrip(c, { int(i) }, t, (k & 1) ? key20 : QByteArray(), k & 2);
                }
            }
        }
    }
    for (size_t i = 0; i < alpha.size(); ++i) {
        for (size_t j = i + 1; j < alpha.size(); ++j) {
            if (alpha[i].group == alpha[j].group) {
                continue;
            }
            for (int k = 0; k < 4; ++k) {
                if (ctx.mine()) {
                    roundTrip(c, { int(i), int(j) }, 0x0001, (k & 1) ? key20 : QByteArray(), k & 2);
                    if (k == 3 && (i * 31 + j) % 97 == 0) {
                        ctx.sample(QJsonObject { { QStringLiteral("part"), QStringLiteral("roundtrip") }, { QStringLiteral("attrs"), names(alpha, { int(i), int(j) }) } });
                    }
                }
            }
        }
    }
    {
        // all groups set at once: variant v picks the v-th value of each group (cyclically)
        QStringList groups;
        for (const auto &a : alpha) {
            if (!groups.contains(a.group)) {
                groups << a.group;
            }
        }
        for (int v = 0; v < 10; ++v) {
            std::vector<int> idx;
            for (const auto &g : groups) {
                std::vector<int> members;
                for (size_t i = 0; i < alpha.size(); ++i) {
                    if (alpha[i].group == g) {
                        members.push_back(int(i));
                    }
                }
                idx.push_back(members[size_t(v) % members.size()]);
            }
            for (int k = 0; k < 4; ++k) {
                if (ctx.mine()) {
                    roundTrip(c, idx, 0x0101, (k & 1) ? key20 : QByteArray(), k & 2);
                    ctx.count(QStringLiteral("allset"));
                }
            }
        }
    }
    // every key length on the representative messages
    for (size_t r = 0; r < reps.size(); ++r) {
        for (int kl = 1; kl <= maxKeyLen; ++kl) {
            for (int fp = 0; fp < 2; ++fp) {
                if (ctx.mine()) {
                    roundTrip(c, reps[r], 0x0001, bytes(kl, 7), fp);
                    ctx.count(QStringLiteral("keylen_sweep"));
                }
            }
        }
    }
    // binary keys: zero bytes at the start / middle / end, all-zero, all-0xff (e.g. TURN long-term keys are MD5 digests)
    {
        QList<QByteArray> binKeys;
        for (int len : { 16, 20, 32, 64 }) {
            for (int zeroAt : { 0, len / 2, len - 1 }) {
                QByteArray k = bytes(len, 11);
                for (int i = 0; i < k.size(); ++i) {
                    if (k[i] == 0) {
                        k[i] = 1;
                    }
                }
                k[zeroAt] = 0;
                binKeys << k;
            }
            binKeys << QByteArray(len, 0) << QByteArray(len, char(0xff));
        }
        for (const auto &key : binKeys) {
            if (!ctx.mine()) {
                continue;
            }
            ++ctx.evaluations;
            ++ctx.nontrivial;
            ctx.count(QStringLiteral("binary_keys"));
            const QByteArray text = bytes(37, 5);
            if (QXmppUtils::generateHmacSha1(key, text) != QMessageAuthenticationCode::hash(text, key, QCryptographicHash::Sha1)) {
                ctx.violation(QStringLiteral("C14/hmac-wrong-for-binary-key"), QStringLiteral("generateHmacSha1 differs from RFC 2104 for a %1-byte key containing 0x00/0xff bytes: %2").arg(key.size()).arg(QString::fromLatin1(key.toHex())),
                              caseOf(QStringLiteral("binkey"), { { QStringLiteral("key"), QString::fromLatin1(key.toHex()) } }));
            }
            const QByteArray enc = build(alpha, reps[0], 0x0001).encode(key, true);
            const QString integ = checkIntegrityAndFingerprint(enc, key, true);
            if (!integ.isEmpty()) {
                ctx.violation(QStringLiteral("C14/hmac-wrong-for-binary-key"), integ, caseOf(QStringLiteral("binkey"), { { QStringLiteral("key"), QString::fromLatin1(key.toHex()) } }));
            }
        }
    }
    // the library's public HMAC helper directly, every key length, two text lengths
    for (int kl = 0; kl <= maxKeyLen; ++kl) {
        for (int tl : { 0, 1, 63, 64, 65, 200 }) {
            if (!ctx.mine()) {
                continue;
            }
            ++ctx.evaluations;
            const QByteArray key = bytes(kl, 7), text = bytes(tl, 2);
            const QByteArray got = QXmppUtils::generateHmacSha1(key, text);
            const QByteArray want = QMessageAuthenticationCode::hash(text, key, QCryptographicHash::Sha1);
            if (got != want) {
                ctx.violation(kl > 64 ? QStringLiteral("C14/hmac-key-len>64") : QStringLiteral("C14/hmac-wrong"),
                              QStringLiteral("generateHmacSha1 differs from RFC 2104 for key length %1, text length %2").arg(kl).arg(tl),
                              caseOf(QStringLiteral("roundtrip"), { { QStringLiteral("attrs"), QJsonArray {} }, { QStringLiteral("type"), 1 }, { QStringLiteral("keylen"), kl }, { QStringLiteral("fp"), false } }));
            }
            if (c.vectors.size() < 40 && (kl % 13 == 0)) {
                c.vectors.append(QJsonObject { { QStringLiteral("key"), QString::fromLatin1(key.toHex()) }, { QStringLiteral("text"), QString::fromLatin1(text.toHex()) },
                                               { QStringLiteral("mac"), QString::fromLatin1(got.toHex()) }, { QStringLiteral("crc"), double(QXmppUtils::generateCrc32(text)) } });
            }
            if (QXmppUtils::generateCrc32(text) != crc32Bitwise(text)) {
                ctx.violation(QStringLiteral("C14/crc32-wrong"), QStringLiteral("generateCrc32 differs from bitwise CRC-32 for text length %1").arg(tl), {});
            }
        }
    }

    // ---- (ii)+(iii) tampering and hostile inputs on authenticated messages --------------------
    const QList<QByteArray> wrongKeys = { QByteArray(), bytes(20, 8), bytes(19, 7), bytes(21, 7), QByteArray(20, 0) };
    for (size_t r = 0; r < reps.size(); ++r) {
        for (int fp = 0; fp < 2; ++fp) {
            const quint16 type = (r % 2) ? 0x0101 : 0x0001;
            const QByteArray orig = build(alpha, reps[r], type).encode(key20, fp);
            const int miEnd = miEndOf(orig);
            if (miEnd < 0) {
                fprintf(stderr, "INTERNAL: no MESSAGE-INTEGRITY in representative message\n");
                return 3;
            }
            QJsonObject base { { QStringLiteral("part"), QStringLiteral("tamper") }, { QStringLiteral("attrs"), toJsonArray(reps[r]) }, { QStringLiteral("names"), names(alpha, reps[r]) },
                               { QStringLiteral("type"), int(type) }, { QStringLiteral("keylen"), 20 }, { QStringLiteral("fp"), bool(fp) } };
            // control: the untouched message is accepted
            if (ctx.mine()) {
                QXmppStunMessage d;
                if (!d.decode(orig, key20)) {
                    fprintf(stderr, "INTERNAL: control decode failed\n");
                    return 3;
                }
                ctx.count(QStringLiteral("tamper_controls_accepted"));
                // wrong keys
                for (const auto &wk : wrongKeys) {
                    if (wk.isEmpty()) {
                        continue;   // empty key = caller does not ask for verification
                    }
                    ++ctx.evaluations;
                    ++ctx.nontrivial;
                    QXmppStunMessage d2;
                    if (d2.decode(orig, wk)) {
                        QJsonObject cj = base;
                        cj[QStringLiteral("wrongkey")] = QString::fromLatin1(wk.toHex());
                        ctx.violation(QStringLiteral("C14/accepted-under-wrong-key"), QStringLiteral("message accepted under a different key"), cj);
                    }
                    ctx.count(QStringLiteral("wrong_key_checks"));
                }
            }
            // every single-bit flip up to the end of MESSAGE-INTEGRITY
            for (int bit = 0; bit < miEnd * 8; ++bit) {
                if (!ctx.mine()) {
                    continue;
                }
                QByteArray mut = orig;
                mut[bit / 8] = char(mut[bit / 8] ^ (1 << (bit % 8)));
                QJsonObject cj = base;
                cj[QStringLiteral("mutated")] = QString::fromLatin1(mut.toHex());
                const QString what = QStringLiteral("bitflip:") + classifyOffset(orig, bit / 8);
                cj[QStringLiteral("what")] = what;
                tamperCheck(c, orig, mut, key20, miEnd, cj, what);
                ctx.count(QStringLiteral("bitflips"));
            }
            // every truncation
            for (int n = 0; n < orig.size(); ++n) {
                if (!ctx.mine()) {
                    continue;
                }
                QByteArray mut = orig.left(n);
                QJsonObject cj = base;
                cj[QStringLiteral("mutated")] = QString::fromLatin1(mut.toHex());
                cj[QStringLiteral("what")] = QStringLiteral("truncation");
                tamperCheck(c, orig, mut, key20, miEnd, cj, QStringLiteral("truncation"));
                // truncation with the header length repaired
                if (n >= 20) {
                    setLen(mut, n - 20);
                    cj[QStringLiteral("mutated")] = QString::fromLatin1(mut.toHex());
                    cj[QStringLiteral("what")] = QStringLiteral("truncation+length-fixed");
                    tamperCheck(c, orig, mut, key20, miEnd, cj, QStringLiteral("truncation+length-fixed"));
                }
                ctx.count(QStringLiteral("truncations"));
            }
            // single byte substitutions everywhere
            for (int pos = 0; pos < orig.size(); ++pos) {
                for (int v : { 0x00, 0x7f, 0x80, 0xff }) {
                    if (!ctx.mine()) {
                        continue;
                    }
                    if (quint8(orig[pos]) == v) {
                        continue;
                    }
                    QByteArray mut = orig;
                    mut[pos] = char(v);
                    QJsonObject cj = base;
                    cj[QStringLiteral("mutated")] = QString::fromLatin1(mut.toHex());
                    const QString what = QStringLiteral("byte-substitution:") + classifyOffset(orig, pos);
                    cj[QStringLiteral("what")] = what;
                    tamperCheck(c, orig, mut, key20, miEnd, cj, what);
                    ctx.count(QStringLiteral("byte_substitutions"));
                }
            }
            // all 2^16 values of every attribute type and length field (and of the header fields)
            std::vector<Tlv> tlvs;
            walk(orig, tlvs);
            std::vector<int> fields = { 0, 2 };
            for (const auto &t : tlvs) {
                fields.push_back(t.offset);
                fields.push_back(t.offset + 2);
            }
            for (int f : fields) {
                if (!ctx.thorough() && fp == 1 && f != 2) {
                    continue;   // quick: 16-bit sweeps only on the variant without fingerprint
                }
                for (int v = 0; v < 65536; ++v) {
                    if (!ctx.mine()) {
                        continue;
                    }
                    QByteArray mut = orig;
                    qToBigEndian<quint16>(quint16(v), mut.data() + f);
                    if (mut == orig) {
                        continue;
                    }
                    QJsonObject cj;
                    const QString what = QStringLiteral("u16-sweep:") + classifyOffset(orig, f);
                    // build the (large) case object only on demand: tamperCheck needs it only for violations
                    QXmppStunMessage probe;
                    ++ctx.evaluations;
                    const bool accepted = probe.decode(mut, key20);
                    const bool prot = f < miEnd;   // (the buffer keeps its size, so a different header length contradicts it)
                    if (prot) {
                        ++ctx.nontrivial;
                    }
                    if (accepted && prot) {
                        cj = base;
                        cj[QStringLiteral("mutated")] = QString::fromLatin1(mut.toHex());
                        cj[QStringLiteral("what")] = what;
                        ctx.violation(QStringLiteral("C14/tampered-message-accepted:") + what,
                                      QStringLiteral("16-bit field at offset %1 set to %2: accepted under the key").arg(f).arg(v), cj);
                    }
                    ctx.count(QStringLiteral("u16_sweeps"));
                }
            }
            // the same hostile buffers decoded without key (pure crash-freedom / termination)
            for (int n = 0; n <= orig.size(); ++n) {
                if (ctx.mine()) {
                    QXmppStunMessage d;
                    d.decode(orig.left(n));
                    d.decode(orig.left(n) + QByteArray(3, char(0xff)));
                    quint32 cookie;
                    QByteArray id;
                    QXmppStunMessage::peekType(orig.left(n), cookie, id);
                    ctx.evaluations += 3;
                }
            }
        }
    }
    if (ctx.shard == 0) {
        ctx.samples.append(QJsonObject { { QStringLiteral("hmac_vectors_for_python"), c.vectors } });
    }
    return ctx.finish();
}
