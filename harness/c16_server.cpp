// C16 — the bundled server routes only for authenticated clients and stamps their true address. BFS worker.
// Real QXmppServer on loopback, a victim (bob) logged in over a raw TCP socket, an attacker script on a second raw socket,
// and a password checker whose replies can be completed in any order.
#include "QXmppIncomingClient.h"
#include "QXmppPasswordChecker.h"
#include "QXmppSasl_p.h"
#include "QXmppServer.h"
#include "vcommon.h"

#include <QElapsedTimer>
#include <QSslSocket>
#include <QTcpSocket>

#include <linux/sockios.h>
#include <sys/ioctl.h>
#include <unistd.h>

#ifndef SIOCOUTQNSD
#define SIOCOUTQNSD 0x894B
#endif

using namespace verif;

namespace {

const QMap<QString, QString> PASSWORDS = { { QStringLiteral("alice"), QStringLiteral("alicepw") }, { QStringLiteral("bob"), QStringLiteral("bobpw") }, { QStringLiteral("mallory"), QStringLiteral("mallorypw") } };

struct Checker : public QXmppPasswordChecker {
    bool controlled = false;
    struct Pending {
        QXmppPasswordReply *reply;
        QString user;
        bool correct;
        bool digest;
    };
    QList<Pending> pending;
    int requests = 0;

    QXmppPasswordReply *checkPassword(const QXmppPasswordRequest &request) override
    {
        ++requests;
        auto *reply = new QXmppPasswordReply;
        const bool ok = PASSWORDS.contains(request.username()) && PASSWORDS.value(request.username()) == request.password();
        if (!ok) {
            reply->setError(QXmppPasswordReply::AuthorizationError);
        }
        if (controlled) {
            pending.append({ reply, request.username(), ok, false });
        } else {
            reply->finishLater();
        }
        return reply;
    }
    QXmppPasswordReply::Error getPassword(const QXmppPasswordRequest &request, QString &password) override
    {
        if (!PASSWORDS.contains(request.username())) {
            return QXmppPasswordReply::AuthorizationError;
        }
        password = PASSWORDS.value(request.username());
        return QXmppPasswordReply::NoError;
    }
    bool hasGetPassword() const override { return true; }
};

QByteArray plainB64(const QByteArray &user, const QByteArray &pw) { return (QByteArray(1, '\0') + user + QByteArray(1, '\0') + pw).toBase64(); }

struct Event {
    QString name;
    enum T { Open, AuthPlain, AuthDigest, DigestResponse, DigestFinal, AuthOther, Abort, ResponseNoAuth, Sasl2Plain, Bind, Session, Message, Presence, Iq, Restart, Complete } type;
    int a = 0;
    int deviation = 0;
};

struct Cred {
    const char *name;
    QByteArray user, pw;
    bool malformed;
};
const Cred creds[] = { { "alice:right", "alice", "alicepw", false }, { "alice:wrong", "alice", "nope", false }, { "bob:wrong", "bob", "nope", false }, { "mallory:right", "mallory", "mallorypw", false },
                       { "malformed", "alice", "alicepw", true } };
const char *fromNames[] = { "absent", "alice-bare", "alice-full", "bob-bare", "bob-full", "foreign", "mallory-bare" };
const QByteArray fromJids[] = { "", "alice@example.org", "alice@example.org/evil", "bob@example.org", "bob@example.org/r", "evil@example.net/x", "mallory@example.org" };
const int NFROM = 7;

std::vector<Event> buildEvents()
{
    std::vector<Event> e;
    e.push_back({ QStringLiteral("open(example.org)"), Event::Open, 0 });
    e.push_back({ QStringLiteral("open(wrong domain)"), Event::Open, 1, 1 });
    for (int c = 0; c < 5; ++c) {
        e.push_back({ QStringLiteral("auth PLAIN %1").arg(QString::fromLatin1(creds[c].name)), Event::AuthPlain, c, c == 0 ? 0 : 1 });
    }
    e.push_back({ QStringLiteral("auth DIGEST-MD5"), Event::AuthDigest, 0 });
    e.push_back({ QStringLiteral("digest response alice:right"), Event::DigestResponse, 0 });
    e.push_back({ QStringLiteral("digest response alice:wrong"), Event::DigestResponse, 1, 1 });
    e.push_back({ QStringLiteral("digest response as bob with alice's password"), Event::DigestResponse, 2, 1 });
    e.push_back({ QStringLiteral("digest response as unknown user 'ghost' with an empty password"), Event::DigestResponse, 3, 1 });
    e.push_back({ QStringLiteral("digest response as alice with an empty password"), Event::DigestResponse, 4, 1 });
    e.push_back({ QStringLiteral("digest final empty response"), Event::DigestFinal, 0 });
    e.push_back({ QStringLiteral("auth ANONYMOUS"), Event::AuthOther, 0, 1 });
    e.push_back({ QStringLiteral("auth UNKNOWN-MECH"), Event::AuthOther, 1, 1 });
    e.push_back({ QStringLiteral("sasl abort"), Event::Abort, 0, 1 });
    e.push_back({ QStringLiteral("sasl response without auth"), Event::ResponseNoAuth, 0, 1 });
    e.push_back({ QStringLiteral("sasl2 authenticate PLAIN alice:right +bind"), Event::Sasl2Plain, 0 });
    e.push_back({ QStringLiteral("sasl2 authenticate PLAIN alice:wrong +bind"), Event::Sasl2Plain, 1, 1 });
    e.push_back({ QStringLiteral("sasl2 authenticate PLAIN bob:wrong +bind"), Event::Sasl2Plain, 2, 1 });
    e.push_back({ QStringLiteral("bind(evil)"), Event::Bind, 0 });
    e.push_back({ QStringLiteral("session"), Event::Session, 0 });
    for (int f = 0; f < NFROM; ++f) {
        e.push_back({ QStringLiteral("message to bob from=%1").arg(QString::fromLatin1(fromNames[f])), Event::Message, f, f <= 2 ? 0 : 1 });
    }
    for (int f : { 0, 1, 3, 4 }) {
        e.push_back({ QStringLiteral("presence subscribe to bob from=%1").arg(QString::fromLatin1(fromNames[f])), Event::Presence, f, f <= 1 ? 0 : 1 });
    }
    for (int f : { 0, 3, 4 }) {
        e.push_back({ QStringLiteral("iq get to bob/r from=%1").arg(QString::fromLatin1(fromNames[f])), Event::Iq, f, f == 0 ? 0 : 1 });
    }
    e.push_back({ QStringLiteral("iq get to server (no to)"), Event::Iq, 100 });
    e.push_back({ QStringLiteral("stream restart"), Event::Restart, 0 });
    for (int k = 0; k < 3; ++k) {
        e.push_back({ QStringLiteral("complete password reply #%1").arg(k + 1), Event::Complete, k });
    }
    return e;
}

struct Exec {
    QXmppServer server;
    Checker checker;
    QTcpSocket bob, att;
    QByteArray bobBuf, attBuf;
    std::vector<Event> events = buildEvents();
    RunResult res;
    quint16 port = 0;
    QHostAddress addr;
    // model
    bool open = false, attackerConnected = true;
    QString authenticatedAs;      // bare JID, "" = not authenticated
    QString boundJid;             // full JID
    bool digestPending = false;   // DIGEST-MD5 challenge outstanding
    QByteArray digestChallenge;
    QString digestVerifiedUser;   // set after a right digest response (awaiting final empty response)
    struct ModelReq {
        QString user;
        bool correct;
        bool current;   // belongs to the SASL exchange that is still the current one
        bool sasl2;
        bool optional = false;   // a stream restart came in between: honouring or dropping the reply are both fine (don't-care)
    };
    QList<ModelReq> modelPending;
    int stanzaCounter = 0;
    QStringList connectedSignals;
    int bobSeen = 0;
    int expectedServerSockets = 0;
    QStringList attLog;   // classification of everything the attacker received (reflects the server's internal progress)

    Exec() { }

    void violate(const QString &key, const QString &msg) { res.violations.append(violation(QStringLiteral("C16/") + key, msg)); }
    void witness(const char *k) { res.witness[QString::fromLatin1(k)] = res.witness.value(QString::fromLatin1(k)).toInt() + 1; }

    static bool quiet(QAbstractSocket *s)
    {
        if (!s || s->state() != QAbstractSocket::ConnectedState) {
            return true;
        }
        if (s->bytesToWrite() != 0) {
            return false;
        }
        int v = 0;
        const int fd = int(s->socketDescriptor());
        if (fd >= 0) {
            if (::ioctl(fd, SIOCOUTQNSD, &v) == 0 && v != 0) {
                return false;
            }
            v = 0;
            if (::ioctl(fd, FIONREAD, &v) == 0 && v != 0) {
                return false;
            }
        }
        return true;
    }

    bool settle()
    {
        QElapsedTimer t;
        t.start();
        int passes = 0;
        while (passes < 3) {
            QCoreApplication::sendPostedEvents(nullptr, 0);
            QCoreApplication::processEvents(QEventLoop::AllEvents);
            QCoreApplication::sendPostedEvents(nullptr, QEvent::DeferredDelete);
            if (bob.isOpen()) {
                bobBuf += bob.readAll();
            }
            if (att.isOpen()) {
                attBuf += att.readAll();
            }
            // the server-side sockets are QObject descendants of the server: reach them through the object tree
            bool q = quiet(&bob) && quiet(&att);
            const auto serverSockets = server.findChildren<QSslSocket *>();
            for (auto *ss : serverSockets) {
                q = q && quiet(ss) && (ss->state() != QAbstractSocket::ConnectedState || ss->bytesAvailable() == 0);
            }
            if (serverSockets.size() < expectedServerSockets && att.state() == QAbstractSocket::ConnectedState) {
                q = false;   // an accepted connection has not been picked up by the server yet
            }
            if (att.state() == QAbstractSocket::ConnectingState || bob.state() == QAbstractSocket::ConnectingState) {
                q = false;
            }
            passes = q ? passes + 1 : 0;
            if (t.elapsed() > 3000) {
                return false;
            }
            ::usleep(q ? 30 : 20);
        }
        return true;
    }

    QList<QByteArray> take(QByteArray &buf)
    {
        return splitStreamItems(buf);
    }

    bool start(int worker, bool controlled)
    {
        static int counter = 0;
        ++counter;
        addr = QHostAddress(QStringLiteral("127.%1.%2.%3").arg(100 + worker % 100).arg((counter / 250) % 250).arg(1 + counter % 250));
        checker.controlled = false;
        server.setDomain(QStringLiteral("example.org"));
        server.setPasswordChecker(&checker);
        QObject::connect(&server, &QXmppServer::clientConnected, &server, [this](const QString &jid) { connectedSignals << jid; });
        // find a free port
        for (int tryPort = 20000 + (counter * 7 + worker * 331) % 20000, n = 0; n < 50; ++n, ++tryPort) {
            if (server.listenForClients(addr, quint16(tryPort))) {
                port = quint16(tryPort);
                break;
            }
        }
        if (!port) {
            return false;
        }
        // victim logs in (immediate replies)
        bob.connectToHost(addr, port);
        if (!bob.waitForConnected(2000)) {
            return false;
        }
        bob.setSocketOption(QAbstractSocket::LowDelayOption, 1);
        expectedServerSockets = 1;
        auto sendBob = [&](const QByteArray &x) {
            bob.write(x);
            bob.flush();
            return settle();
        };
        if (!sendBob("<?xml version='1.0'?><stream:stream xmlns='jabber:client' xmlns:stream='http://etherx.jabber.org/streams' to='example.org' version='1.0'>") ||
            !sendBob("<auth xmlns='urn:ietf:params:xml:ns:xmpp-sasl' mechanism='PLAIN'>" + plainB64("bob", "bobpw") + "</auth>") ||
            !sendBob("<stream:stream xmlns='jabber:client' xmlns:stream='http://etherx.jabber.org/streams' to='example.org' version='1.0'>") ||
            !sendBob("<iq type='set' id='b1'><bind xmlns='urn:ietf:params:xml:ns:xmpp-bind'><resource>r</resource></bind></iq>")) {
            return false;
        }
        const auto items = take(bobBuf);
        bool bound = false;
        for (const auto &i : items) {
            if (i.contains("<jid>bob@example.org/r</jid>")) {
                bound = true;
            }
        }
        if (!bound) {
            return false;
        }
        connectedSignals.clear();
        checker.controlled = controlled;
        checker.requests = 0;
        att.connectToHost(addr, port);
        if (!att.waitForConnected(2000)) {
            return false;
        }
        att.setSocketOption(QAbstractSocket::LowDelayOption, 1);
        expectedServerSockets = 2;
        return settle();
    }

    void observeAfter(const QString &ctx, const QByteArray &markerOfThisStep)
    {
        // ---- what bob received
        for (const auto &it : take(bobBuf)) {
            if (it.trimmed().isEmpty()) {
                continue;
            }
            ++bobSeen;
            res.obs << QStringLiteral("bob<- ") + QString::fromUtf8(it.left(220));
            QDomDocument d;
            const auto el = parseXml(QByteArray("<w xmlns='jabber:client'>") + it + "</w>", &d).firstChildElement();
            const QString from = el.attribute(QStringLiteral("from"));
            if (authenticatedAs.isEmpty()) {
                violate(QStringLiteral("stanza-routed-for-unauthenticated-client"),
                        QStringLiteral("%1: bob received a stanza although the sender connection is not authenticated: %2").arg(ctx, QString::fromUtf8(it.left(200))));
            } else if (from != authenticatedAs && (boundJid.isEmpty() || from != boundJid)) {
                violate(QStringLiteral("routed-stanza-carries-foreign-from"),
                        QStringLiteral("%1: bob received a stanza stamped from='%2' but the sender is authenticated as %3 (%4): %5").arg(ctx, from, authenticatedAs, boundJid, QString::fromUtf8(it.left(200))));
            } else {
                witness("routed_with_true_from");
            }
            Q_UNUSED(markerOfThisStep)
        }
        // ---- what the attacker received
        for (const auto &it : take(attBuf)) {
            if (it.trimmed().isEmpty() || it.startsWith("<?xml") || it.startsWith("<stream:stream")) {
                continue;
            }
            res.obs << QStringLiteral("att<- ") + QString::fromUtf8(it.left(220));
            attLog << QString::fromUtf8(it.left(40)).section(QLatin1Char(' '), 0, 0);
            QDomDocument d;
            const auto el = parseXml(QByteArray("<w xmlns='jabber:client' xmlns:stream='http://etherx.jabber.org/streams'>") + it + "</w>", &d).firstChildElement();
            const QString tag = el.tagName();
            if (tag == QLatin1String("success")) {
                witness("success_sent");
                QString who;
                if (el.namespaceURI() == QLatin1String("urn:xmpp:sasl:2")) {
                    who = el.firstChildElement(QStringLiteral("authorization-identifier")).text().section(QLatin1Char('/'), 0, 0);
                }
                if (who.isEmpty()) {
                    // SASL <success/> names nobody: ask the server whom it took this connection for (the victim's connection is the
                    // one with a bound resource)
                    for (auto *ic : server.findChildren<QXmppIncomingClient *>()) {
                        if (!ic->jid().isEmpty() && !ic->jid().contains(QLatin1Char('/'))) {
                            who = ic->jid();
                        }
                    }
                }
                if (authenticatedAs.isEmpty()) {
                    violate(QStringLiteral("success-without-approved-exchange"), QStringLiteral("%1: the server sent <success/> although no exchange was approved by the password checker for its user").arg(ctx));
                } else if (!who.isEmpty() && who != authenticatedAs) {
                    violate(QStringLiteral("success-for-wrong-user"), QStringLiteral("%1: success for '%2' but the approved exchange was for '%3'").arg(ctx, who, authenticatedAs));
                }
                if (el.namespaceURI() == QLatin1String("urn:xmpp:sasl:2")) {
                    const QString full = el.firstChildElement(QStringLiteral("authorization-identifier")).text();
                    if (full.contains(QLatin1Char('/'))) {
                        boundJid = full;
                    }
                }
            } else if (tag == QLatin1String("iq")) {
                const auto type = el.attribute(QStringLiteral("type"));
                if (type == QLatin1String("result") || type == QLatin1String("error")) {
                    if (authenticatedAs.isEmpty()) {
                        violate(QStringLiteral("iq-answered-before-authentication:") + el.attribute(QStringLiteral("id")),
                                QStringLiteral("%1: the server answered an IQ of an unauthenticated connection: %2").arg(ctx, QString::fromUtf8(it.left(200))));
                    }
                    const auto jid = el.firstChildElement(QStringLiteral("bind")).firstChildElement(QStringLiteral("jid")).text();
                    if (!jid.isEmpty()) {
                        if (!authenticatedAs.isEmpty() && jid.section(QLatin1Char('/'), 0, 0) != authenticatedAs) {
                            violate(QStringLiteral("bound-as-other-user"), QStringLiteral("%1: resource bound as '%2' but authenticated as '%3'").arg(ctx, jid, authenticatedAs));
                        }
                        if (!authenticatedAs.isEmpty()) {
                            boundJid = jid;
                            witness("bound");
                        }
                    }
                }
            }
        }
        for (const auto &j : std::as_const(connectedSignals)) {
            if (authenticatedAs.isEmpty() || j.section(QLatin1Char('/'), 0, 0) != authenticatedAs) {
                violate(QStringLiteral("client-connected-signal-for-unauthenticated-jid"), QStringLiteral("%1: clientConnected('%2') but the connection is authenticated as '%3'").arg(ctx, j, authenticatedAs));
            }
        }
        connectedSignals.clear();
        attackerConnected = att.state() == QAbstractSocket::ConnectedState;
    }

    void send(const QByteArray &x)
    {
        att.write(x);
        att.flush();
        if (!settle()) {
            violate(QStringLiteral("harness-settle-timeout"), QStringLiteral("settle timeout"));
        }
    }

    // a (new) approved exchange makes the connection u's; an earlier binding belongs to the previous identity
    void authenticate(const QString &bare)
    {
        if (authenticatedAs != bare) {
            boundJid.clear();
        }
        authenticatedAs = bare;
    }

    // the model's view of the current exchange is superseded by any new <auth/>/<authenticate/>
    void supersedeExchanges()
    {
        for (auto &r : modelPending) {
            r.current = false;
        }
        digestPending = false;
        digestVerifiedUser.clear();
    }

    void step(int evId)
    {
        const Event &e = events[size_t(evId)];
        const QString ctx = e.name;
        const QByteArray header = "<stream:stream xmlns='jabber:client' xmlns:stream='http://etherx.jabber.org/streams' to='example.org' version='1.0'>";
        switch (e.type) {
        case Event::Open:
            send("<?xml version='1.0'?><stream:stream xmlns='jabber:client' xmlns:stream='http://etherx.jabber.org/streams' to='" + QByteArray(e.a ? "other.example" : "example.org") + "' version='1.0'>");
            open = e.a == 0;
            break;
        case Event::Restart:
            // whether a reply that is still outstanding survives a stream restart is not decided by the property: the connection ends
            // up authenticated as a user whose password was verified either way
            for (auto &r : modelPending) {
                if (r.current) {
                    r.optional = true;
                }
            }
            send(header);
            break;
        case Event::AuthPlain: {
            const auto &c = creds[e.a];
            supersedeExchanges();
            const QByteArray payload = c.malformed ? (c.user + QByteArray(1, '\0') + c.pw).toBase64() : plainB64(c.user, c.pw);
            const bool correct = !c.malformed && PASSWORDS.value(QString::fromLatin1(c.user)) == QString::fromLatin1(c.pw);
            if (!c.malformed) {
                if (checker.controlled) {
                    modelPending.append({ QString::fromLatin1(c.user) + QStringLiteral("@example.org"), correct, true, false });
                } else if (correct) {
                    authenticate(QString::fromLatin1(c.user) + QStringLiteral("@example.org"));
                }
            }
            send("<auth xmlns='urn:ietf:params:xml:ns:xmpp-sasl' mechanism='PLAIN'>" + payload + "</auth>");
            break;
        }
        case Event::Sasl2Plain: {
            const auto &c = creds[e.a];
            supersedeExchanges();
            const bool correct = PASSWORDS.value(QString::fromLatin1(c.user)) == QString::fromLatin1(c.pw);
            if (checker.controlled) {
                modelPending.append({ QString::fromLatin1(c.user) + QStringLiteral("@example.org"), correct, true, true });
            } else if (correct) {
                authenticate(QString::fromLatin1(c.user) + QStringLiteral("@example.org"));
            }
            send("<authenticate xmlns='urn:xmpp:sasl:2' mechanism='PLAIN'><initial-response>" + plainB64(c.user, c.pw) + "</initial-response><bind xmlns='urn:xmpp:bind:0'><tag>evil</tag></bind></authenticate>");
            break;
        }
        case Event::AuthDigest:
            supersedeExchanges();
            send("<auth xmlns='urn:ietf:params:xml:ns:xmpp-sasl' mechanism='DIGEST-MD5'/>");
            // pick up the challenge
            for (const auto &it : splitStreamItemsPeek(attBuf)) {
                if (it.startsWith("<challenge")) {
                    QDomDocument d;
                    digestChallenge = QByteArray::fromBase64(parseXml(it, &d).text().toLatin1());
                    digestPending = true;
                }
            }
            break;
        case Event::DigestResponse: {
            QByteArray user = "alice", pw = "alicepw";
            if (e.a == 1) {
                pw = "nope";
            } else if (e.a == 2) {
                user = "bob";
            } else if (e.a == 3) {
                user = "ghost";
                pw = "";
            } else if (e.a == 4) {
                pw = "";
            }
            QByteArray resp = "invalid";
            if (digestPending && !digestChallenge.isEmpty()) {
                QXmppLoggable l;
                auto c = QXmppSaslClient::create(QStringLiteral("DIGEST-MD5"), &l);
                c->setHost(QStringLiteral("example.org"));
                c->setServiceType(QStringLiteral("xmpp"));
                c->setUsername(QString::fromLatin1(user));
                QXmpp::Private::Credentials cr;
                cr.password = QString::fromLatin1(pw);
                c->setCredentials(cr);
                c->respond({});
                resp = c->respond(digestChallenge).value_or("invalid");
                if (e.a == 0) {
                    digestVerifiedUser = QStringLiteral("alice@example.org");
                }
            }
            send("<response xmlns='urn:ietf:params:xml:ns:xmpp-sasl'>" + resp.toBase64() + "</response>");
            digestPending = false;
            break;
        }
        case Event::DigestFinal:
            if (!digestVerifiedUser.isEmpty()) {
                authenticate(digestVerifiedUser);
            }
            digestVerifiedUser.clear();
            send("<response xmlns='urn:ietf:params:xml:ns:xmpp-sasl'/>");
            break;
        case Event::AuthOther:
            supersedeExchanges();
            send(QByteArray("<auth xmlns='urn:ietf:params:xml:ns:xmpp-sasl' mechanism='") + (e.a ? "UNKNOWN-MECH" : "ANONYMOUS") + "'/>");
            break;
        case Event::Abort:
            // the server ignores a SASL 1 <abort/>; the statement does not require more, so the exchange stays current
            send("<abort xmlns='urn:ietf:params:xml:ns:xmpp-sasl'/>");
            break;
        case Event::ResponseNoAuth:
            // any <response/> completes a DIGEST-MD5 exchange whose digest was already verified
            if (!digestVerifiedUser.isEmpty()) {
                authenticate(digestVerifiedUser);
            }
            digestVerifiedUser.clear();
            digestPending = false;
            send("<response xmlns='urn:ietf:params:xml:ns:xmpp-sasl'>" + plainB64("alice", "alicepw") + "</response>");
            break;
        case Event::Bind:
            send("<iq type='set' id='bind" + QByteArray::number(++stanzaCounter) + "'><bind xmlns='urn:ietf:params:xml:ns:xmpp-bind'><resource>evil</resource></bind></iq>");
            break;
        case Event::Session:
            send("<iq type='set' id='sess" + QByteArray::number(++stanzaCounter) + "'><session xmlns='urn:ietf:params:xml:ns:xmpp-session'/></iq>");
            break;
        case Event::Message: {
            QByteArray x = "<message to='bob@example.org' type='chat' id='m" + QByteArray::number(++stanzaCounter) + "'";
            if (!fromJids[e.a].isEmpty()) {
                x += " from='" + fromJids[e.a] + "'";
            }
            send(x + "><body>hello bob</body></message>");
            break;
        }
        case Event::Presence: {
            QByteArray x = "<presence to='bob@example.org' type='subscribe'";
            if (!fromJids[e.a].isEmpty()) {
                x += " from='" + fromJids[e.a] + "'";
            }
            send(x + "/>");
            break;
        }
        case Event::Iq: {
            QByteArray x = "<iq type='get' id='q" + QByteArray::number(++stanzaCounter) + "'";
            if (e.a != 100) {
                x += " to='bob@example.org/r'";
                if (!fromJids[e.a].isEmpty()) {
                    x += " from='" + fromJids[e.a] + "'";
                }
            }
            send(x + "><query xmlns='urn:verif:q'/></iq>");
            break;
        }
        case Event::Complete: {
            // complete the k-th outstanding reply of the checker; the model entry with the same index decides
            const int k = e.a;
            auto p = checker.pending.takeAt(k);
            const auto mr = modelPending.takeAt(k);
            if (mr.current && mr.correct && mr.optional) {
                // adopt the implementation's choice: the exchange counts iff the server answers it with <success/>
                p.reply->finish();
                if (!settle()) {
                    violate(QStringLiteral("harness-settle-timeout"), QStringLiteral("settle timeout"));
                }
                bool success = false;
                for (const auto &it : splitStreamItemsPeek(attBuf)) {
                    success = success || it.startsWith("<success");
                }
                if (success) {
                    authenticate(mr.user);
                }
                witness(success ? "reply_after_restart_honoured" : "reply_after_restart_dropped");
                break;
            }
            if (mr.current && mr.correct) {
                authenticate(mr.user);
            }
            if (mr.current) {
                // the exchange is finished either way
            } else {
                witness("stale_replies_completed");
            }
            p.reply->finish();
            if (!settle()) {
                violate(QStringLiteral("harness-settle-timeout"), QStringLiteral("settle timeout"));
            }
            break;
        }
        }
        observeAfter(ctx, {});
    }

    static QList<QByteArray> splitStreamItemsPeek(const QByteArray &buf)
    {
        QByteArray copy = buf;
        return splitStreamItems(copy);
    }

    std::vector<int> enabled() const
    {
        std::vector<int> en;
        if (!res.violations.isEmpty() || !attackerConnected) {
            return en;
        }
        for (int i = 0; i < int(events.size()); ++i) {
            const auto &e = events[size_t(i)];
            if (e.type == Event::Open) {
                if (!open) {
                    en.push_back(i);
                }
                continue;
            }
            if (!open) {
                continue;
            }
            if (e.type == Event::Complete) {
                if (e.a < checker.pending.size()) {
                    en.push_back(i);
                }
                continue;
            }
            if (e.type == Event::DigestResponse && !digestPending) {
                continue;
            }
            if (e.type == Event::DigestFinal && digestVerifiedUser.isEmpty()) {
                continue;
            }
            en.push_back(i);
        }
        return en;
    }

    QString canon()
    {
        QStringList srv = attLog;
        QStringList mp;
        for (const auto &r : std::as_const(modelPending)) {
            mp << QStringLiteral("%1:%2:%3").arg(r.user).arg(r.correct).arg(r.current);
        }
        QString boundCanon = boundJid;
        if (const int dot = boundCanon.indexOf(QLatin1String("/evil.")); dot >= 0) {
            boundCanon = boundCanon.left(dot + 6) + QStringLiteral("RANDOM");   // server-chosen random resource suffix
        }
        return QStringLiteral("open%1 conn%2 auth[%3] bound[%4] dig%5/%6 pend[%7] | %8").arg(open).arg(attackerConnected).arg(authenticatedAs, boundCanon).arg(digestPending).arg(digestVerifiedUser, mp.join(QLatin1Char(',')),
                                                                                          srv.join(QLatin1Char(';')));
    }
};

}  // namespace

int main(int argc, char **argv)
{
    QCoreApplication app(argc, argv);
    Harness h;
    h.describe = [] {
        QJsonArray evs;
        const auto events = buildEvents();
        for (int i = 0; i < int(events.size()); ++i) {
            evs.append(QJsonObject { { QStringLiteral("id"), i }, { QStringLiteral("name"), events[size_t(i)].name }, { QStringLiteral("deviation"), events[size_t(i)].deviation } });
        }
        return QJsonObject { { QStringLiteral("property"), QStringLiteral("C16") }, { QStringLiteral("events"), evs } };
    };
    h.run = [](const QJsonObject &config, const std::vector<int> &history, bool) {
        auto x = std::make_unique<Exec>();
        if (!x->start(workerId(), config.value(QStringLiteral("controlled")).toBool())) {
            x->violate(QStringLiteral("harness-start-failed"), QStringLiteral("could not start server / log bob in"));
        } else {
            for (int ev : history) {
                const auto en = x->enabled();
                if (std::find(en.begin(), en.end(), ev) == en.end()) {
                    x->violate(QStringLiteral("replay-diverged"), QStringLiteral("event %1 not enabled on replay").arg(x->events[size_t(ev)].name));
                    break;
                }
                x->step(ev);
            }
        }
        x->res.enabled = x->enabled();
        x->res.canon = x->canon();
        x->res.outcome = QStringLiteral("%1|%2|%3").arg(x->authenticatedAs, x->boundJid).arg(x->bobSeen);
        RunResult r = x->res;
        x->att.abort();
        x->bob.abort();
        x.reset();
        QCoreApplication::sendPostedEvents(nullptr, QEvent::DeferredDelete);
        QCoreApplication::processEvents();
        return r;
    };
    return workerMain(argc, argv, h);
}
