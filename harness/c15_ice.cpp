// C15 — ICE reacts only to checks authenticated with the session password; honest peers connect.
// Mode 1 (--worker): BFS worker for the safety half. Two real QXmppIceConnection objects on 127.0.0.1; every datagram
// crosses a relay owned by the harness; forged datagrams are injected at any point of the honest exchange.
// Mode 2 (--tier ...): enumeration of the liveness half (roles x payloads x loss subsets of the first transmissions).
#include "QXmppJingleIq.h"
#include "QXmppStun.h"
#include "enumctx.h"

#include <QElapsedTimer>
#include <QUdpSocket>

#include <unistd.h>

using namespace verif;

namespace {

struct Dgram {
    QByteArray data;
};

struct Peer {
    QXmppIceConnection conn;
    QXmppIceComponent *comp = nullptr;
    quint16 port = 0;
    int connectedSignals = 0;
    QList<QByteArray> received;   // application datagrams
    QStringList selectedLog;
};

struct Net {
    Peer L, R;
    QUdpSocket ra, rb;       // ra faces L (represents R), rb faces R (represents L)
    QUdpSocket attacker;
    QList<Dgram> lToR, rToL; // in flight at the relay
    QList<QByteArray> attackerGot;
    QByteArray lastRequestIdFromL, lastRequestIdFromR;
    int totalFromL = 0, totalFromR = 0;
    QStringList wireLog;

    // preAnswer: candidates are gathered and the sockets listen, but the peer's credentials and candidates are not known yet
    bool setup(bool lControlling, bool preAnswer = false)
    {
        for (Peer *p : { &L, &R }) {
            p->conn.setIceControlling(p == &L ? lControlling : !lControlling);
            p->conn.addComponent(1);
            p->comp = p->conn.component(1);
            if (!p->conn.bind({ QHostAddress(QHostAddress::LocalHost) })) {
                return false;
            }
            const auto cands = p->conn.localCandidates();
            if (cands.isEmpty()) {
                return false;
            }
            p->port = cands.first().port();
            QObject::connect(&p->conn, &QXmppIceConnection::connected, &p->conn, [p] { ++p->connectedSignals; });
            QObject::connect(p->comp, &QXmppIceComponent::datagramReceived, &p->conn, [p](const QByteArray &d) { p->received << d; });
            QObject::connect(&p->conn, &QXmppLoggable::logMessage, &p->conn, [p](QXmppLogger::MessageType, const QString &t) {
                if (t.contains(QLatin1String("ICE pair selected"))) {
                    p->selectedLog << t.section(QLatin1String("(priority"), 0, 0);
                }
            });
        }
        if (!ra.bind(QHostAddress(QHostAddress::LocalHost), quint16(0)) || !rb.bind(QHostAddress(QHostAddress::LocalHost), quint16(0)) || !attacker.bind(QHostAddress(QHostAddress::LocalHost), quint16(0))) {
            return false;
        }
        auto give = [](Peer &to, Peer &from, quint16 relayPort) {
            to.conn.setRemoteUser(from.conn.localUser());
            to.conn.setRemotePassword(from.conn.localPassword());
            auto c = from.conn.localCandidates().first();
            c.setPort(relayPort);
            to.conn.addRemoteCandidate(c);
        };
        if (!preAnswer) {
            give(L, R, ra.localPort());
            give(R, L, rb.localPort());
        }
        return true;
    }

    void collect()
    {
        while (ra.hasPendingDatagrams()) {
            QByteArray b(int(ra.pendingDatagramSize()), 0);
            ra.readDatagram(b.data(), b.size());
            note(b, true);
            lToR.append({ b });
        }
        while (rb.hasPendingDatagrams()) {
            QByteArray b(int(rb.pendingDatagramSize()), 0);
            rb.readDatagram(b.data(), b.size());
            note(b, false);
            rToL.append({ b });
        }
        while (attacker.hasPendingDatagrams()) {
            QByteArray b(int(attacker.pendingDatagramSize()), 0);
            attacker.readDatagram(b.data(), b.size());
            attackerGot << b;
        }
    }

    void note(const QByteArray &b, bool fromL)
    {
        quint32 cookie;
        QByteArray id;
        const quint16 type = QXmppStunMessage::peekType(b, cookie, id);
        QString cls = QStringLiteral("data[%1]").arg(b.size());
        if (type && cookie == 0x2112A442) {
            cls = (type & 0x0110) == 0 ? QStringLiteral("request") : ((type & 0x0110) == 0x0100 ? QStringLiteral("response") : QStringLiteral("error"));
            if ((type & 0x0110) == 0) {
                (fromL ? lastRequestIdFromL : lastRequestIdFromR) = id;
            }
        }
        (fromL ? totalFromL : totalFromR)++;
        wireLog << (fromL ? QStringLiteral("L>") : QStringLiteral("R>")) + cls;
    }

    // pump until no socket has pending datagrams on 4 consecutive passes
    void settle()
    {
        int quiet = 0;
        QElapsedTimer t;
        t.start();
        while (quiet < 4 && t.elapsed() < 200) {
            QCoreApplication::processEvents();
            const int before = lToR.size() + rToL.size() + attackerGot.size();
            collect();
            bool pending = lToR.size() + rToL.size() + attackerGot.size() != before;
            for (Peer *p : { &L, &R }) {
                for (auto *s : p->conn.findChildren<QUdpSocket *>()) {
                    pending = pending || (s->state() == QAbstractSocket::BoundState && s->hasPendingDatagrams());
                }
            }
            quiet = pending ? 0 : quiet + 1;
            ::usleep(30);
        }
    }

    void start()
    {
        L.conn.connectToHost();
        R.conn.connectToHost();
        settle();
    }

    bool deliverLtoR()
    {
        if (lToR.isEmpty()) {
            return false;
        }
        rb.writeDatagram(lToR.takeFirst().data, QHostAddress::LocalHost, R.port);
        settle();
        return true;
    }
    bool deliverRtoL()
    {
        if (rToL.isEmpty()) {
            return false;
        }
        ra.writeDatagram(rToL.takeFirst().data, QHostAddress::LocalHost, L.port);
        settle();
        return true;
    }
};

// ------------------------------------------------------------------ forged datagrams
struct Forge {
    int cls;        // 0 request, 1 success response, 2 error response
    int integrity;  // 0 none, 1 wrong key, 2 truncated MI, 3 zeroed MI, 4 VALID (control)
    bool useCandidate;
    int username;   // 0 correct, 1 wrong, 2 absent
    int role;       // 0 controlling, 1 controlled, 2 none
    bool copiedId;
    bool fromPeerAddress;
    int typeBits = 0;   // the two reserved top bits of the STUN message type (0 in every legal message)
};
const char *clsNames[] = { "binding-request", "success-response", "error-response" };
const char *integNames[] = { "no-integrity", "wrong-key", "truncated-integrity", "zeroed-integrity", "VALID-integrity" };

std::vector<Forge> forges(bool control)
{
    std::vector<Forge> f;
    for (int cls = 0; cls < 3; ++cls) {
        for (int integ = 0; integ < (control ? 5 : 4); ++integ) {
            if (control && integ != 4) {
                continue;
            }
            for (int uc = 0; uc < 2; ++uc) {
                for (int un = 0; un < 3; ++un) {
                    for (int role = 0; role < 3; ++role) {
                        for (int cid = 0; cid < 2; ++cid) {
                            for (int src = 0; src < 2; ++src) {
                                f.push_back({ cls, integ, bool(uc), un, role, bool(cid), bool(src) });
                                // reserved type bits: only where no valid MAC is involved (the MAC covers the header)
                                if (!control && integ <= 1 && cid == 0 && role != 1) {
                                    for (int tb = 1; tb < 4; ++tb) {
                                        f.push_back({ cls, integ, bool(uc), un, role, bool(cid), bool(src), tb });
                                    }
                                }
                            }
                        }
                    }
                }
            }
        }
    }
    return f;
}

QString forgeName(const Forge &f)
{
    return QStringLiteral("%1/%2/%3/user=%4/role=%5/id=%6/src=%7").arg(QString::fromLatin1(clsNames[f.cls]), QString::fromLatin1(integNames[f.integrity]), f.useCandidate ? QStringLiteral("use-candidate") : QStringLiteral("-"))
        .arg(f.username == 0 ? QStringLiteral("correct") : (f.username == 1 ? QStringLiteral("wrong") : QStringLiteral("absent")), f.role == 0 ? QStringLiteral("controlling") : (f.role == 1 ? QStringLiteral("controlled") : QStringLiteral("none")),
             f.copiedId ? QStringLiteral("copied") : QStringLiteral("fresh"), f.fromPeerAddress ? QStringLiteral("peer-address") : QStringLiteral("unknown-port")) +
        (f.typeBits ? QStringLiteral("/reserved-type-bits=%1").arg(f.typeBits) : QString());
}

QByteArray buildForged(const Forge &f, Peer &victim, Peer &other, const QByteArray &copiedId, int salt)
{
    QXmppStunMessage m;
    // (the reserved bits are set before encoding so that FINGERPRINT covers them)
    m.setType(quint16(f.typeBits << 14) | quint16(int(QXmppStunMessage::Binding) | (f.cls == 0 ? int(QXmppStunMessage::Request) : (f.cls == 1 ? int(QXmppStunMessage::Response) : int(QXmppStunMessage::Error)))));
    QByteArray id(12, char(0x40 + salt));
    if (f.copiedId && copiedId.size() == 12) {
        id = copiedId;
    }
    m.setId(id);
    if (f.username == 0) {
        m.setUsername(victim.conn.localUser() + QLatin1Char(':') + other.conn.localUser());
    } else if (f.username == 1) {
        m.setUsername(QStringLiteral("nobody:noone"));
    }
    m.setPriority(1862270975);
    m.useCandidate = f.useCandidate;
    if (f.role == 0) {
        m.iceControlling = QByteArray(8, 'c');
    } else if (f.role == 1) {
        m.iceControlled = QByteArray(8, 'd');
    }
    if (f.cls == 1) {
        m.xorMappedHost = QHostAddress(QHostAddress::LocalHost);
        m.xorMappedPort = victim.port;
    } else if (f.cls == 2) {
        m.errorCode = 487;
        m.errorPhrase = QStringLiteral("Role Conflict");
    }
    // the key a legitimate sender would use: requests to the victim -> victim's local password; responses -> the peer's
    const QByteArray rightKey = (f.cls == 0 ? victim.conn.localPassword() : other.conn.localPassword()).toUtf8();
    switch (f.integrity) {
    case 0: return m.encode(QByteArray(), true);
    case 1: return m.encode("not-the-session-password", true);
    case 4: return m.encode(rightKey, true);
    case 2:
    case 3: {
        QByteArray enc = m.encode(rightKey, false);
        // MESSAGE-INTEGRITY is the last attribute (24 bytes)
        if (f.integrity == 3) {
            for (int i = enc.size() - 20; i < enc.size(); ++i) {
                enc[i] = 0;
            }
            return enc;
        }
        enc.chop(12);                                          // 10 bytes of MAC + 2 bytes padding remain
        enc[enc.size() - 12 - 2 + 0] = 0;                       // attribute length := 10
        enc[enc.size() - 12 - 2 + 1] = 10;
        const int body = enc.size() - 20;
        enc[2] = char(body >> 8);
        enc[3] = char(body & 0xff);
        return enc;
    }
    }
    return {};
}

// ------------------------------------------------------------------ BFS worker (safety)
struct Exec {
    Net net;
    RunResult res;
    std::vector<Forge> fs;
    bool started = false;
    int injections = 0;

    void violate(const QString &key, const QString &msg) { res.violations.append(violation(QStringLiteral("C15/") + key, msg)); }
    void witness(const char *k) { res.witness[QString::fromLatin1(k)] = res.witness.value(QString::fromLatin1(k)).toInt() + 1; }

    QString snapshot(Peer &p)
    {
        // ephemeral port numbers differ between executions: only the number of selections matters
        return QStringLiteral("conn%1 sig%2 sel%3 rx%4").arg(p.conn.isConnected()).arg(p.connectedSignals).arg(p.selectedLog.size()).arg(p.received.size());
    }

    // events: 0 deliver L->R, 1 deliver R->L, 2.. inject forge k at L, then at R
    int nEvents() const { return 2 + 2 * int(fs.size()); }

    void inject(int k, bool atL, bool control)
    {
        const Forge &f = fs[size_t(k)];
        Peer &victim = atL ? net.L : net.R;
        Peer &other = atL ? net.R : net.L;
        const QString before = snapshot(victim) + QStringLiteral("|") + snapshot(other);
        const int fromVictimBefore = atL ? net.totalFromL : net.totalFromR;
        const int attackerBefore = net.attackerGot.size();
        const QByteArray copied = atL ? net.lastRequestIdFromL : net.lastRequestIdFromR;
        const QByteArray dgram = buildForged(f, victim, other, copied, ++injections);
        QUdpSocket &src = f.fromPeerAddress ? (atL ? net.ra : net.rb) : net.attacker;
        src.writeDatagram(dgram, QHostAddress::LocalHost, victim.port);
        net.settle();
        const QString after = snapshot(victim) + QStringLiteral("|") + snapshot(other);
        const int emitted = (atL ? net.totalFromL : net.totalFromR) - fromVictimBefore + (net.attackerGot.size() - attackerBefore);
        const QString what = QStringLiteral("%1 at %2").arg(forgeName(f), atL ? QStringLiteral("L(controlling)") : QStringLiteral("R(controlled)"));
        if (control) {
            if (emitted > 0 || after != before) {
                witness("valid_integrity_has_effect");
            }
            return;
        }
        if (after != before) {
            violate(QStringLiteral("state-changed-by-unauthenticated-datagram:%1:%2").arg(QString::fromLatin1(clsNames[f.cls]), QString::fromLatin1(integNames[f.integrity])),
                    QStringLiteral("%1: observable state went from [%2] to [%3]").arg(what, before, after));
        }
        if (emitted > 0) {
            // the only datagram an unauthenticated message may cause is an error response (none is sent by this implementation)
            bool onlyErrors = true;
            for (int i = attackerBefore; i < net.attackerGot.size(); ++i) {
                quint32 cookie;
                QByteArray id;
                const quint16 t = QXmppStunMessage::peekType(net.attackerGot[i], cookie, id);
                if ((t & 0x0110) != 0x0110) {
                    onlyErrors = false;
                }
            }
            if (net.attackerGot.size() - attackerBefore != emitted) {
                onlyErrors = false;   // something went to the honest peer's address
            }
            if (!onlyErrors) {
                violate(QStringLiteral("reacted-to-unauthenticated-datagram:%1:%2").arg(QString::fromLatin1(clsNames[f.cls]), QString::fromLatin1(integNames[f.integrity])),
                        QStringLiteral("%1: the component answered / sent %2 datagram(s) because of it (wire: %3)").arg(what).arg(emitted).arg(net.wireLog.mid(qMax(0, net.wireLog.size() - 4)).join(QLatin1Char(' '))));
            }
        }
        witness("forged_injected");
    }

    void step(int ev)
    {
        if (ev == 0) {
            net.deliverLtoR();
        } else if (ev == 1) {
            net.deliverRtoL();
        } else {
            const int k = (ev - 2) % int(fs.size());
            inject(k, (ev - 2) < int(fs.size()), false);
        }
    }

    std::vector<int> enabled() const
    {
        std::vector<int> en;
        if (!res.violations.isEmpty()) {
            return en;
        }
        if (!net.lToR.isEmpty()) {
            en.push_back(0);
        }
        if (!net.rToL.isEmpty()) {
            en.push_back(1);
        }
        for (int i = 2; i < nEvents(); ++i) {
            en.push_back(i);
        }
        return en;
    }

    QString canon()
    {
        return QStringLiteral("L[%1] R[%2] q%3/%4 wire[%5]").arg(snapshot(net.L), snapshot(net.R)).arg(net.lToR.size()).arg(net.rToL.size()).arg(net.wireLog.join(QLatin1Char(' ')));
    }
};

// ------------------------------------------------------------------ liveness enumeration
QByteArray payloadOf(int kind)
{
    switch (kind) {
    case 0: return QByteArray(1, 'x');
    case 1: return QByteArray(1200, 'y');
    case 2: {
        // looks like a STUN header (first word non-zero, length field consistent) but carries no magic cookie
        QByteArray p(172, char(0x5a));
        p[0] = char(0x80);
        p[1] = 0x00;
        p[2] = 0;
        p[3] = char(172 - 20);
        return p;
    }
    case 3: {
        QByteArray p(20, 0);
        p[0] = 0x00;
        p[1] = 0x01;
        p[4] = 0x12;
        return p;
    }
    }
    return QByteArray("hello");
}

quint32 rfc5245Priority(int typePref, int localPref, int component) { return (quint32(typePref) << 24) + (quint32(localPref) << 8) + quint32(256 - component); }

void liveness(EnumCtx &ctx, bool lControlling, int lossMask)
{
    Net net;
    if (!net.setup(lControlling)) {
        fprintf(stderr, "INTERNAL: ice setup failed\n");
        exit(3);
    }
    const QJsonObject cj { { QStringLiteral("part"), QStringLiteral("liveness") }, { QStringLiteral("lControlling"), lControlling }, { QStringLiteral("lossMask"), lossMask } };
    net.start();
    // relay everything; drop the k-th transmission overall if bit k of lossMask is set (first four transmissions)
    int transmission = 0;
    QElapsedTimer t;
    t.start();
    while (t.elapsed() < 6000 && !(net.L.conn.isConnected() && net.R.conn.isConnected() && net.lToR.isEmpty() && net.rToL.isEmpty())) {
        net.settle();
        bool moved = false;
        while (!net.lToR.isEmpty() || !net.rToL.isEmpty()) {
            const bool fromL = !net.lToR.isEmpty();
            const bool drop = transmission < 4 && (lossMask & (1 << transmission));
            ++transmission;
            if (drop) {
                (fromL ? net.lToR : net.rToL).removeFirst();
                ctx.count(QStringLiteral("datagrams_dropped"));
            } else if (fromL) {
                net.deliverLtoR();
            } else {
                net.deliverRtoL();
            }
            moved = true;
        }
        if (!moved) {
            ::usleep(2000);
        }
    }
    ++ctx.evaluations;
    if (lossMask) {
        ++ctx.nontrivial;
    }
    if (!(net.L.conn.isConnected() && net.R.conn.isConnected())) {
        ctx.violation(QStringLiteral("C15/honest-peers-did-not-connect:loss=%1").arg(lossMask), QStringLiteral("after %1 ms: L connected=%2 R connected=%3, wire %4").arg(t.elapsed()).arg(net.L.conn.isConnected()).arg(net.R.conn.isConnected())
                          .arg(net.wireLog.join(QLatin1Char(' '))), cj);
        return;
    }
    ctx.count(QStringLiteral("connected_runs"));
    // advertised priorities: host candidates, component 1 -> RFC 5245 formula with type preference 126, local preference 65535
    for (Peer *p : { &net.L, &net.R }) {
        for (const auto &c : p->conn.localCandidates()) {
            if (c.type() == QXmppJingleCandidate::HostType && quint32(c.priority()) != rfc5245Priority(126, 65535, 1)) {
                ctx.violation(QStringLiteral("C15/candidate-priority-not-rfc5245"), QStringLiteral("host candidate priority %1, RFC 5245 value %2").arg(c.priority()).arg(rfc5245Priority(126, 65535, 1)), cj);
            }
        }
    }
    // application datagrams both ways, every payload kind
    for (int kind = 0; kind < 5; ++kind) {
        for (int dir = 0; dir < 2; ++dir) {
            Peer &from = dir ? net.R : net.L;
            Peer &to = dir ? net.L : net.R;
            const QByteArray payload = payloadOf(kind);
            const int before = to.received.size();
            from.comp->sendDatagram(payload);
            for (int i = 0; i < 6 && to.received.size() == before; ++i) {
                net.settle();
                while (net.deliverLtoR() || net.deliverRtoL()) { }
            }
            ++ctx.evaluations;
            ++ctx.nontrivial;
            if (to.received.size() != before + 1 || to.received.last() != payload) {
                ctx.violation(QStringLiteral("C15/application-datagram-not-carried-unchanged:payload-kind-%1").arg(kind),
                              QStringLiteral("payload kind %1 (%2 bytes, first bytes %3) sent %4: received %5 datagrams").arg(kind).arg(payload.size()).arg(QString::fromLatin1(payload.left(8).toHex()), dir ? QStringLiteral("R->L") : QStringLiteral("L->R"))
                                  .arg(to.received.size() - before), cj);
            }
            ctx.count(QStringLiteral("payloads_carried"));
        }
    }
    ctx.outcome(net.wireLog.join(QLatin1Char(' ')));
}

}  // namespace

int main(int argc, char **argv)
{
    QCoreApplication app(argc, argv);
    bool worker = false;
    for (int i = 1; i < argc; ++i) {
        if (QByteArray(argv[i]) == "--worker") {
            worker = true;
        }
    }
    if (worker) {
        Harness h;
        h.describe = [] {
            QJsonArray evs;
            evs.append(QJsonObject { { QStringLiteral("id"), 0 }, { QStringLiteral("name"), QStringLiteral("deliver next L->R") }, { QStringLiteral("deviation"), 0 } });
            evs.append(QJsonObject { { QStringLiteral("id"), 1 }, { QStringLiteral("name"), QStringLiteral("deliver next R->L") }, { QStringLiteral("deviation"), 0 } });
            const auto fs = forges(false);
            for (int v = 0; v < 2; ++v) {
                for (int k = 0; k < int(fs.size()); ++k) {
                    evs.append(QJsonObject { { QStringLiteral("id"), 2 + v * int(fs.size()) + k }, { QStringLiteral("name"), QStringLiteral("inject %1 at %2").arg(forgeName(fs[size_t(k)]), v == 0 ? QStringLiteral("L") : QStringLiteral("R")) },
                                             { QStringLiteral("deviation"), 1 } });
                }
            }
            return QJsonObject { { QStringLiteral("property"), QStringLiteral("C15") }, { QStringLiteral("events"), evs } };
        };
        h.run = [](const QJsonObject &config, const std::vector<int> &history, bool) {
            auto x = std::make_unique<Exec>();
            x->fs = forges(false);
            const bool preAnswer = config.value(QStringLiteral("preAnswer")).toBool(false);
            if (!x->net.setup(config.value(QStringLiteral("lControlling")).toBool(true), preAnswer)) {
                x->violate(QStringLiteral("harness-setup"), QStringLiteral("setup failed"));
            } else {
                x->net.start();
                for (int ev : history) {
                    const auto en = x->enabled();
                    if (std::find(en.begin(), en.end(), ev) == en.end()) {
                        x->violate(QStringLiteral("replay-diverged"), QStringLiteral("event %1 not enabled").arg(ev));
                        break;
                    }
                    x->step(ev);
                }
            }
            // control: in a separate throw-away network the same kinds of message with VALID integrity do have an effect
            if (history.empty()) {
                auto y = std::make_unique<Exec>();
                y->fs = forges(true);
                if (y->net.setup(true)) {
                    y->net.start();
                    for (int k = 0; k < int(y->fs.size()); k += 7) {
                        y->inject(k, true, true);
                    }
                    for (auto it = y->res.witness.begin(); it != y->res.witness.end(); ++it) {
                        x->res.witness[it.key()] = it.value();
                    }
                }
            }
            x->res.enabled = x->enabled();
            x->res.canon = x->canon();
            x->res.outcome = QStringLiteral("%1|%2").arg(x->net.L.conn.isConnected()).arg(x->net.R.conn.isConnected());
            if (x->net.L.conn.isConnected() && x->net.R.conn.isConnected()) {
                x->witness("both_connected");
            }
            if (preAnswer && !history.empty()) {
                x->witness("pre_answer_injections");
            }
            RunResult r = x->res;
            x.reset();
            QCoreApplication::sendPostedEvents(nullptr, QEvent::DeferredDelete);
            return r;
        };
        return workerMain(argc, argv, h);
    }
    EnumCtx ctx;
    ctx.parseArgs(argc, argv);
    if (ctx.replay) {
        liveness(ctx, ctx.replayCase.value(QStringLiteral("lControlling")).toBool(), ctx.replayCase.value(QStringLiteral("lossMask")).toInt());
        return ctx.finish();
    }
    for (int role = 0; role < 2; ++role) {
        for (int mask = 0; mask < 16; ++mask) {
            int bits = 0;
            for (int b = 0; b < 4; ++b) {
                bits += (mask >> b) & 1;
            }
            if (!ctx.thorough() && bits > 2) {
                continue;
            }
            if (ctx.mine()) {
                liveness(ctx, bool(role), mask);
                if (mask == 5) {
                    ctx.sample(QJsonObject { { QStringLiteral("part"), QStringLiteral("liveness") }, { QStringLiteral("lControlling"), bool(role) }, { QStringLiteral("lossMask"), mask } });
                }
            }
        }
    }
    return ctx.finish();
}
