// C20 — XEP-0115 verification string: (a) order/duplicate blindness and agreement with an independent implementation
// over all permutations of small info sets; (b) <c ver/> advertised in presence == hash of the disco#info reply.
#include "QXmppAttentionManager.h"
#include "QXmppCarbonManagerV2.h"
#include "QXmppDataForm.h"
#include "QXmppDiscoveryIq.h"
#include "QXmppDiscoveryManager.h"
#include "QXmppEntityTimeManager.h"
#include "QXmppMessageReceiptManager.h"
#include "QXmppPresence.h"
#include "QXmppRosterManager.h"
#include "QXmppTransferManager.h"
#include "QXmppVCardManager.h"
#include "QXmppVersionManager.h"
#include "clientrig.h"
#include "enumctx.h"

#include <QCryptographicHash>

#include <algorithm>

using namespace verif;

namespace {

struct Ident {
    QString category, type, lang, name;
};
struct Field {
    QString var;
    QStringList values;
};
struct InfoSet {
    QList<Ident> identities;
    QStringList features;
    bool hasForm = false;
    QString formType;
    QList<Field> fields;
};

bool octetLess(const QString &a, const QString &b)
{
    return a.toUtf8() < b.toUtf8();   // QByteArray compares as unsigned bytes: i;octet
}

// Independent implementation of XEP-0115 section 5.1
QByteArray referenceHash(const InfoSet &s)
{
    QByteArray S;
    auto ids = s.identities;
    std::sort(ids.begin(), ids.end(), [](const Ident &a, const Ident &b) {
        if (a.category != b.category) {
            return octetLess(a.category, b.category);
        }
        if (a.type != b.type) {
            return octetLess(a.type, b.type);
        }
        if (a.lang != b.lang) {
            return octetLess(a.lang, b.lang);
        }
        return octetLess(a.name, b.name);
    });
    for (const auto &i : ids) {
        S += (i.category + QLatin1Char('/') + i.type + QLatin1Char('/') + i.lang + QLatin1Char('/') + i.name + QLatin1Char('<')).toUtf8();
    }
    QStringList feats = s.features;
    std::sort(feats.begin(), feats.end(), octetLess);
    feats.erase(std::unique(feats.begin(), feats.end()), feats.end());
    for (const auto &f : feats) {
        S += f.toUtf8() + '<';
    }
    if (s.hasForm) {
        S += s.formType.toUtf8() + '<';
        auto fields = s.fields;
        std::sort(fields.begin(), fields.end(), [](const Field &a, const Field &b) { return octetLess(a.var, b.var); });
        for (const auto &f : fields) {
            S += f.var.toUtf8() + '<';
            auto vals = f.values;
            std::sort(vals.begin(), vals.end(), octetLess);
            for (const auto &v : vals) {
                S += v.toUtf8() + '<';
            }
        }
    }
    return QCryptographicHash::hash(S, QCryptographicHash::Sha1);
}

QXmppDiscoveryIq build(const InfoSet &s)
{
    QXmppDiscoveryIq iq;
    iq.setQueryType(QXmppDiscoveryIq::InfoQuery);
    QList<QXmppDiscoveryIq::Identity> ids;
    for (const auto &i : s.identities) {
        QXmppDiscoveryIq::Identity x;
        x.setCategory(i.category);
        x.setType(i.type);
        x.setLanguage(i.lang);
        x.setName(i.name);
        ids << x;
    }
    iq.setIdentities(ids);
    iq.setFeatures(s.features);
    if (s.hasForm) {
        QXmppDataForm form;
        form.setType(QXmppDataForm::Result);
        QList<QXmppDataForm::Field> fields;
        QXmppDataForm::Field ft(QXmppDataForm::Field::HiddenField);
        ft.setKey(QStringLiteral("FORM_TYPE"));
        ft.setValue(s.formType);
        for (const auto &f : s.fields) {
            QXmppDataForm::Field x(f.values.size() > 1 ? QXmppDataForm::Field::ListMultiField : QXmppDataForm::Field::TextSingleField);
            x.setKey(f.var);
            if (f.values.size() > 1) {
                x.setValue(f.values);
            } else {
                x.setValue(f.values.value(0));
            }
            fields << x;
        }
        // FORM_TYPE is placed at position formTypePos by the caller through field order; default: first
        fields.prepend(ft);
        form.setFields(fields);
        iq.setForm(form);
    }
    return iq;
}

QString describe(const InfoSet &s)
{
    QStringList p;
    for (const auto &i : s.identities) {
        p << QStringLiteral("id(%1/%2/%3/%4)").arg(i.category, i.type, i.lang, i.name);
    }
    p << QStringLiteral("features[%1]").arg(s.features.join(QLatin1Char(',')));
    if (s.hasForm) {
        QStringList f;
        for (const auto &x : s.fields) {
            f << x.var + QLatin1Char('=') + x.values.join(QLatin1Char('|'));
        }
        p << QStringLiteral("form(%1: %2)").arg(s.formType, f.join(QLatin1Char(';')));
    }
    return p.join(QLatin1Char(' '));
}

QJsonObject caseJson(const QString &part, const QList<int> &ids, const QList<int> &feats, int form, const QString &desc)
{
    QJsonArray a, b;
    for (int i : ids) {
        a.append(i);
    }
    for (int i : feats) {
        b.append(i);
    }
    return { { QStringLiteral("part"), part }, { QStringLiteral("ids"), a }, { QStringLiteral("feats"), b }, { QStringLiteral("form"), form }, { QStringLiteral("desc"), desc } };
}

const QList<Ident> &identAlphabet()
{
    static const QList<Ident> a = {
        { QStringLiteral("client"), QStringLiteral("pc"), QString(), QStringLiteral("Exodus 0.9.1") },
        { QStringLiteral("client"), QStringLiteral("pc"), QStringLiteral("el"), QStringLiteral("Ψ 0.11") },
        { QStringLiteral("client"), QStringLiteral("pc"), QStringLiteral("en"), QStringLiteral("Psi 0.11") },
        { QStringLiteral("client"), QStringLiteral("phone"), QString(), QStringLiteral("Psi 0.11") },
        { QStringLiteral("account"), QStringLiteral("registered"), QString(), QString() },
        { QStringLiteral("client"), QStringLiteral("pc"), QString(), QStringLiteral("Ａ name in the BMP above the surrogates") },
        { QStringLiteral("client"), QStringLiteral("pc"), QString(), QStringLiteral("\U0001F600 name beyond the BMP") },
    };
    return a;
}
const QStringList &featureAlphabet()
{
    static const QStringList a = { QStringLiteral("http://jabber.org/protocol/caps"), QStringLiteral("http://jabber.org/protocol/disco#info"), QStringLiteral("http://jabber.org/protocol/muc"),
                                   QStringLiteral("urn:xmpp:time"), QStringLiteral("Urn:upper"), QStringLiteral("urn:Ａ"), QStringLiteral("urn:\U0001F600") };
    return a;
}
struct FormV {
    bool present;
    QString type;
    QList<Field> fields;
};
const QList<FormV> &formAlphabet()
{
    static const QList<FormV> a = {
        { false, {}, {} },
        { true, QStringLiteral("urn:xmpp:dataforms:softwareinfo"), {} },
        { true, QStringLiteral("urn:xmpp:dataforms:softwareinfo"), { { QStringLiteral("os"), { QStringLiteral("Mac") } }, { QStringLiteral("os_version"), { QStringLiteral("10.5.1") } } } },
        { true, QStringLiteral("urn:xmpp:dataforms:softwareinfo"),
          { { QStringLiteral("ip_version"), { QStringLiteral("ipv6"), QStringLiteral("ipv4") } }, { QStringLiteral("software"), { QStringLiteral("Psi") } }, { QStringLiteral("os"), { QStringLiteral("Mac") } } } },
        { true, QStringLiteral("urn:verif:form"), { { QStringLiteral("multi"), { QStringLiteral("c"), QStringLiteral("a"), QStringLiteral("b") } }, { QStringLiteral("Ａkey"), { QStringLiteral("v") } },
                                                    { QStringLiteral("\U0001F600key"), { QStringLiteral("v") } } } },
    };
    return a;
}

struct PartA {
    EnumCtx &ctx;
    QSet<QByteArray> seenHashes;
    QMap<QByteArray, QString> hashToCanonicalSet;

    InfoSet make(const QList<int> &ids, const QList<int> &feats, int form)
    {
        InfoSet s;
        for (int i : ids) {
            s.identities << identAlphabet()[i];
        }
        for (int f : feats) {
            s.features << featureAlphabet()[f];
        }
        const auto &fv = formAlphabet()[form];
        s.hasForm = fv.present;
        s.formType = fv.type;
        s.fields = fv.fields;
        return s;
    }

    // canonical description of the SET (order- and duplicate-free) to detect hash collisions between different sets
    QString setKey(const InfoSet &s)
    {
        QStringList ids;
        for (const auto &i : s.identities) {
            ids << i.category + QLatin1Char('/') + i.type + QLatin1Char('/') + i.lang + QLatin1Char('/') + i.name;
        }
        ids.sort();
        QStringList f = s.features;
        f.sort();
        f.removeDuplicates();
        QStringList fl;
        for (const auto &x : s.fields) {
            QStringList v = x.values;
            v.sort();
            fl << x.var + QLatin1Char('=') + v.join(QLatin1Char('|'));
        }
        fl.sort();
        return ids.join(QLatin1Char(';')) + QStringLiteral(" # ") + f.join(QLatin1Char(';')) + QStringLiteral(" # ") + (s.hasForm ? s.formType + QLatin1Char(':') + fl.join(QLatin1Char(';')) : QStringLiteral("-"));
    }

    void checkSet(const QList<int> &ids, const QList<int> &feats, int form)
    {
        const InfoSet base = make(ids, feats, form);
        const QByteArray want = referenceHash(base);
        const QString desc = describe(base);
        const auto cj = caseJson(QStringLiteral("a"), ids, feats, form, desc);
        // every permutation of identities x features, every rotation of fields, reversed value lists
        QList<int> pi = ids;
        std::sort(pi.begin(), pi.end());
        QSet<QByteArray> got;
        bool astral = desc.contains(QStringLiteral("\U0001F600")) && desc.contains(QStringLiteral("Ａ"));
        do {
            QList<int> pf = feats;
            std::sort(pf.begin(), pf.end());
            do {
                const int nf = formAlphabet()[form].fields.size();
                for (int rot = 0; rot < qMax(1, nf); ++rot) {
                    for (int rev = 0; rev < 2; ++rev) {
                        InfoSet s = make(pi, pf, form);
                        for (int r = 0; r < rot; ++r) {
                            s.fields.append(s.fields.takeFirst());
                        }
                        if (rev) {
                            for (auto &f : s.fields) {
                                std::reverse(f.values.begin(), f.values.end());
                            }
                            std::reverse(s.fields.begin(), s.fields.end());
                        }
                        ++ctx.evaluations;
                        if (pi.size() + pf.size() >= 2) {
                            ++ctx.nontrivial;
                        }
                        const QByteArray h = build(s).verificationString();
                        got.insert(h);
                        if (h != want) {
                            const QString key = astral ? QStringLiteral("C20/sort-not-octet-order") : QStringLiteral("C20/hash-differs-from-xep-0115");
                            ctx.violation(key, QStringLiteral("verificationString() = %1, XEP-0115 value = %2 for %3").arg(QString::fromLatin1(h.toBase64()), QString::fromLatin1(want.toBase64()), describe(s)), cj);
                        }
                    }
                }
            } while (std::next_permutation(pf.begin(), pf.end()));
        } while (std::next_permutation(pi.begin(), pi.end()));
        if (got.size() > 1) {
            ctx.violation(astral ? QStringLiteral("C20/sort-not-octet-order") : QStringLiteral("C20/hash-depends-on-order"), QStringLiteral("%1 different hashes over the permutations of %2").arg(got.size()).arg(desc), cj);
        }
        // duplicates of a feature must not matter
        if (!feats.isEmpty()) {
            QList<int> dup = feats;
            dup << feats.first() << feats.last();
            ++ctx.evaluations;
            if (build(make(ids, dup, form)).verificationString() != build(base).verificationString()) {
                ctx.violation(QStringLiteral("C20/hash-depends-on-duplicate-feature"), QStringLiteral("repeating a feature changes the hash of %1").arg(desc), cj);
            }
        }
        // different sets must hash differently (sensitivity to any addition / removal / alteration)
        const QByteArray mine = build(base).verificationString();
        const QString key = setKey(base);
        auto it = hashToCanonicalSet.find(mine);
        if (it != hashToCanonicalSet.end() && it.value() != key) {
            ctx.violation(QStringLiteral("C20/different-info-sets-same-hash"), QStringLiteral("[%1] and [%2] have the same verification string").arg(it.value(), key), cj);
        } else {
            hashToCanonicalSet.insert(mine, key);
        }
        ctx.outcome(QString::fromLatin1(mine.toBase64()));
    }
};

// ---- part (b) ---------------------------------------------------------------------------------------------------
InfoSet parseDiscoReply(const QDomElement &query)
{
    InfoSet s;
    for (auto c = query.firstChildElement(); !c.isNull(); c = c.nextSiblingElement()) {
        if (c.tagName() == QLatin1String("identity")) {
            s.identities << Ident { c.attribute(QStringLiteral("category")), c.attribute(QStringLiteral("type")), c.attribute(QStringLiteral("xml:lang")), c.attribute(QStringLiteral("name")) };
        } else if (c.tagName() == QLatin1String("feature")) {
            s.features << c.attribute(QStringLiteral("var"));
        } else if (c.tagName() == QLatin1String("x") && c.namespaceURI() == QLatin1String("jabber:x:data")) {
            s.hasForm = true;
            for (auto f = c.firstChildElement(QStringLiteral("field")); !f.isNull(); f = f.nextSiblingElement(QStringLiteral("field"))) {
                QStringList vals;
                for (auto v = f.firstChildElement(QStringLiteral("value")); !v.isNull(); v = v.nextSiblingElement(QStringLiteral("value"))) {
                    vals << v.text();
                }
                if (f.attribute(QStringLiteral("var")) == QLatin1String("FORM_TYPE")) {
                    s.formType = vals.value(0);
                } else {
                    s.fields << Field { f.attribute(QStringLiteral("var")), vals };
                }
            }
        }
    }
    return s;
}

void partB(EnumCtx &ctx, int mask, int variant)
{
    ClientRig rig(ctx.shard);
    auto *disco = new QXmppDiscoveryManager;
    rig.client->addExtension(disco);
    if (mask & 1) {
        rig.client->addExtension(new QXmppVersionManager);
    }
    if (mask & 2) {
        rig.client->addExtension(new QXmppEntityTimeManager);
    }
    if (mask & 4) {
        rig.client->addExtension(new QXmppMessageReceiptManager);
    }
    if (mask & 8) {
        rig.client->addExtension(new QXmppTransferManager);
    }
    if (mask & 16) {
        rig.client->addExtension(new QXmppCarbonManagerV2);
    }
    if (mask & 32) {
        rig.client->addExtension(new QXmppAttentionManager);
    }
    if (variant & 1) {
        disco->setClientName(QStringLiteral("Verif Ａ\U0001F600 client"));
        disco->setClientCapabilitiesNode(QStringLiteral("https://verif.example/caps"));
    }
    if (variant & 2) {
        QXmppDataForm form;
        form.setType(QXmppDataForm::Result);
        QXmppDataForm::Field ft(QXmppDataForm::Field::HiddenField);
        ft.setKey(QStringLiteral("FORM_TYPE"));
        ft.setValue(QStringLiteral("urn:xmpp:dataforms:softwareinfo"));
        QXmppDataForm::Field os(QXmppDataForm::Field::TextSingleField);
        os.setKey(QStringLiteral("os"));
        os.setValue(QStringLiteral("Linux"));
        QXmppDataForm::Field ip(QXmppDataForm::Field::ListMultiField);
        ip.setKey(QStringLiteral("ip_version"));
        ip.setValue(QStringList { QStringLiteral("ipv6"), QStringLiteral("ipv4") });
        form.setFields({ os, ft, ip });
        disco->setClientInfoForm(form);
    }
    LoginOptions lo;
    lo.offerSm = false;
    if (!rig.listen() || !rig.connectClient(rig.baseConfig()) || !rig.login(lo)) {
        fprintf(stderr, "INTERNAL: login failed: %s\n", qPrintable(rig.error));
        exit(3);
    }
    rig.sync();
    const QJsonObject cj { { QStringLiteral("part"), QStringLiteral("b") }, { QStringLiteral("mask"), mask }, { QStringLiteral("variant"), variant } };
    auto capsOfLastPresence = [&](QString *node) {
        QString ver;
        for (const auto &w : std::as_const(rig.wire)) {
            if (w.startsWith("<presence")) {
                QDomDocument d;
                const auto el = parseXml(QByteArray("<w xmlns='jabber:client'>") + w + "</w>", &d).firstChildElement();
                const auto c = el.firstChildElement(QStringLiteral("c"));
                if (!c.isNull()) {
                    ver = c.attribute(QStringLiteral("ver"));
                    *node = c.attribute(QStringLiteral("node"));
                }
            }
        }
        return ver;
    };
    QString node;
    QString ver = capsOfLastPresence(&node);
    if (ver.isEmpty()) {
        ctx.violation(QStringLiteral("C20/no-caps-in-initial-presence"), QStringLiteral("initial presence carries no <c ver=.../>"), cj);
        return;
    }
    auto queryAndCompare = [&](const QString &queryNode, const QString &advertised, const QString &what) {
        const int before = rig.wire.size();
        rig.serverSend("<iq type='get' id='dq' from='example.org' to='user@example.org/r'><query xmlns='http://jabber.org/protocol/disco#info'" +
                       (queryNode.isEmpty() ? QByteArray() : " node='" + queryNode.toUtf8().replace("&", "&amp;") + "'") + "/></iq>");
        for (int i = before; i < rig.wire.size(); ++i) {
            if (!rig.wire[i].startsWith("<iq")) {
                continue;
            }
            QDomDocument d;
            const auto el = parseXml(QByteArray("<w xmlns='jabber:client'>") + rig.wire[i] + "</w>", &d).firstChildElement();
            if (el.attribute(QStringLiteral("id")) != QLatin1String("dq")) {
                continue;
            }
            ++ctx.evaluations;
            ++ctx.nontrivial;
            if (el.attribute(QStringLiteral("type")) != QLatin1String("result")) {
                ctx.violation(QStringLiteral("C20/disco-info-for-advertised-node-refused"), QStringLiteral("%1: disco#info for node '%2' answered with type %3").arg(what, queryNode, el.attribute(QStringLiteral("type"))), cj);
                return;
            }
            const auto info = parseDiscoReply(el.firstChildElement(QStringLiteral("query")));
            const QString want = QString::fromLatin1(referenceHash(info).toBase64());
            ctx.count(QStringLiteral("presence_vs_disco_compared"));
            if (want != advertised) {
                ctx.violation(QStringLiteral("C20/presence-hash-differs-from-disco-reply"),
                              QStringLiteral("%1: presence advertises ver=%2 but the disco#info reply for node '%3' hashes to %4 (%5)").arg(what, advertised, queryNode, want, describe(info).left(600)), cj);
            }
            ctx.outcome(want);
            return;
        }
        ctx.violation(QStringLiteral("C20/disco-info-not-answered"), QStringLiteral("%1: no reply to disco#info for node '%2'").arg(what, queryNode), cj);
    };
    queryAndCompare(node + QLatin1Char('#') + ver, ver, QStringLiteral("initial presence"));
    queryAndCompare(QString(), ver, QStringLiteral("initial presence, bare query"));
    // a presence change keeps advertising a hash that matches
    QXmppPresence p;
    p.setStatusText(QStringLiteral("away"));
    rig.client->setClientPresence(p);
    rig.sync();
    QString node2;
    const QString ver2 = capsOfLastPresence(&node2);
    if (ver2 != ver) {
        ctx.violation(QStringLiteral("C20/hash-changes-between-presences"), QStringLiteral("setClientPresence advertises %1, initial presence %2").arg(ver2, ver), cj);
    }
    queryAndCompare(node2 + QLatin1Char('#') + ver2, ver2, QStringLiteral("setClientPresence"));
    // the capabilities change at run time (a manager is added, the software-info form is replaced) and the application
    // re-announces a COPY of the stored presence: the advertised hash must describe the new disco#info answer
    if (!(mask & 32)) {
        rig.client->addExtension(new QXmppAttentionManager);
    } else {
        QXmppDataForm form;
        form.setType(QXmppDataForm::Result);
        QXmppDataForm::Field ft(QXmppDataForm::Field::HiddenField);
        ft.setKey(QStringLiteral("FORM_TYPE"));
        ft.setValue(QStringLiteral("urn:xmpp:dataforms:softwareinfo"));
        QXmppDataForm::Field os(QXmppDataForm::Field::TextSingleField);
        os.setKey(QStringLiteral("os"));
        os.setValue(QStringLiteral("Plan 9"));
        form.setFields({ ft, os });
        disco->setClientInfoForm(form);
    }
    QXmppPresence copy = rig.client->clientPresence();
    copy.setStatusText(QStringLiteral("back"));
    rig.client->setClientPresence(copy);
    rig.sync();
    QString node3;
    const QString ver3 = capsOfLastPresence(&node3);
    if (ver3 == ver2) {
        ctx.violation(QStringLiteral("C20/hash-not-updated-after-capabilities-changed"), QStringLiteral("the capabilities changed at run time but the re-announced presence still advertises %1").arg(ver3), cj);
    }
    queryAndCompare(node3 + QLatin1Char('#') + ver3, ver3, QStringLiteral("presence re-announced from a copy after the capabilities changed"));
    ctx.count(QStringLiteral("runtime_capability_changes"));
}

}  // namespace

int main(int argc, char **argv)
{
    QCoreApplication app(argc, argv);
    EnumCtx ctx;
    ctx.parseArgs(argc, argv);
    PartA a { ctx, {}, {} };

    if (ctx.replay) {
        const auto &r = ctx.replayCase;
        if (r.value(QStringLiteral("part")).toString() == QLatin1String("b")) {
            partB(ctx, r.value(QStringLiteral("mask")).toInt(), r.value(QStringLiteral("variant")).toInt());
        } else {
            QList<int> ids, feats;
            for (const auto &v : r.value(QStringLiteral("ids")).toArray()) {
                ids << v.toInt();
            }
            for (const auto &v : r.value(QStringLiteral("feats")).toArray()) {
                feats << v.toInt();
            }
            a.checkSet(ids, feats, r.value(QStringLiteral("form")).toInt());
        }
        return ctx.finish();
    }

    const int maxIds = ctx.thorough() ? 3 : 2, maxFeats = ctx.thorough() ? 4 : 3;
    const int nI = identAlphabet().size(), nF = featureAlphabet().size(), nForms = formAlphabet().size();
    // NOTE: collision detection (hashToCanonicalSet) is per shard; sharding is by identity subset so that every shard sees
    // complete families of feature/form variations
    std::vector<QList<int>> idSets, featSets;
    for (int m = 0; m < (1 << nI); ++m) {
        QList<int> l;
        for (int i = 0; i < nI; ++i) {
            if (m & (1 << i)) {
                l << i;
            }
        }
        if (l.size() <= maxIds) {
            idSets.push_back(l);
        }
    }
    for (int m = 0; m < (1 << nF); ++m) {
        QList<int> l;
        for (int i = 0; i < nF; ++i) {
            if (m & (1 << i)) {
                l << i;
            }
        }
        if (l.size() <= maxFeats) {
            featSets.push_back(l);
        }
    }
    for (const auto &ids : idSets) {
        if (!ctx.mine()) {
            continue;
        }
        for (const auto &feats : featSets) {
            for (int form = 0; form < nForms; ++form) {
                a.checkSet(ids, feats, form);
            }
        }
        ctx.count(QStringLiteral("identity_sets"));
        if (ids.size() == 2 && ctx.samples.size() < 3) {
            ctx.sample(caseJson(QStringLiteral("a"), ids, featSets[featSets.size() / 2], 3, describe(a.make(ids, featSets[featSets.size() / 2], 3))));
        }
    }
    // part (b): every subset of six feature-bearing managers x 4 name/node/form variants
    for (int mask = 0; mask < 64; ++mask) {
        for (int variant = 0; variant < 4; ++variant) {
            if (!ctx.thorough() && variant != 0 && variant != 3 && mask % 8 != 7) {
                continue;
            }
            if (ctx.mine()) {
                partB(ctx, mask, variant);
                ctx.count(QStringLiteral("client_configurations"));
                if (mask == 63 && variant == 3) {
                    ctx.sample(QJsonObject { { QStringLiteral("part"), QStringLiteral("b") }, { QStringLiteral("mask"), mask }, { QStringLiteral("variant"), variant } });
                }
            }
        }
    }
    return ctx.finish();
}
