// C13 — QXmppTask/QXmppPromise: the continuation runs exactly once with the finished value, never after
// its context died; values and continuations are released.
// Exhaustive enumeration of all operation sequences up to a length bound over a small alphabet, for four
// result types, against a reference model; instance counting + ASan as lifetime oracles.
#include "QXmppPromise.h"
#include "QXmppTask.h"
#include "enumctx.h"

#include <memory>
#include <optional>

using namespace verif;

static int g_live = 0;   // live instances of Counted (values and closure tokens)

struct Counted {
    int v = 0;
    explicit Counted(int x = 0) : v(x) { ++g_live; }
    Counted(const Counted &o) : v(o.v) { ++g_live; }
    Counted(Counted &&o) noexcept : v(o.v) { ++g_live; o.v = -1; }
    Counted &operator=(const Counted &o) = default;
    Counted &operator=(Counted &&o) noexcept { v = o.v; o.v = -1; return *this; }
    ~Counted() { --g_live; }
};

enum Op { CopyP, GetTask, CopyT, ThenPlain, ThenSelfCapture, ThenReenter, Finish, DestroyCtx, DropP, DropT, FinishLvalue, FinishConvert, ThenLate, NOPS };
static const char *opNames[] = { "copyP", "task", "copyT", "then", "then(self-capturing)", "then(re-entering)", "finish", "destroyCtx", "dropP", "dropT", "finish(lvalue)", "finish(convertible)",
                                 "then(late, self-capturing, after the value was consumed)" };

struct Model {
    int promises = 1, tasks = 0;
    bool ctxAlive = true, finished = false, thenDone = false, selfCapture = false, reenter = false;
    int expected = 0;
    bool ctxDeadAtFinishWithContinuation = false;
    bool lateDone = false;   // a second continuation attached after the first one consumed the value

    bool enabled(int op) const
    {
        switch (op) {
        case CopyP: return promises >= 1 && promises < 2;
        case GetTask: return promises >= 1 && tasks < 2;
        case CopyT: return tasks >= 1 && tasks < 2;
        case ThenPlain:
        case ThenSelfCapture:
        case ThenReenter: return tasks >= 1 && ctxAlive && !thenDone;
        case Finish:
        case FinishLvalue:
        case FinishConvert: return promises >= 1 && !finished;
        case DestroyCtx: return ctxAlive;
        // a second continuation once the first one has run: whether it runs is not constrained (void: it does, otherwise the value is
        // gone), but it must be released -- it captures a copy of its own task, so storing it would leak the shared state for good
        case ThenLate: return tasks >= 1 && ctxAlive && finished && thenDone && expected == 1 && !reenter && !lateDone;
        case DropP: return promises >= 1;
        case DropT: return tasks >= 1;
        }
        return false;
    }
    void apply(int op)
    {
        switch (op) {
        case CopyP: ++promises; break;
        case GetTask: ++tasks; break;
        case CopyT: ++tasks; break;
        case ThenPlain:
        case ThenSelfCapture:
        case ThenReenter:
            thenDone = true;
            selfCapture = op == ThenSelfCapture;
            reenter = op == ThenReenter;
            if (finished) {
                expected = 1;
                if (reenter) {
                    tasks = 0;
                }
            }
            break;
        case Finish:
        case FinishLvalue:
        case FinishConvert:
            finished = true;
            if (thenDone) {
                if (ctxAlive) {
                    expected = 1;
                    if (reenter) {
                        tasks = 0;
                    }
                } else {
                    ctxDeadAtFinishWithContinuation = true;
                }
            }
            break;
        case DestroyCtx: ctxAlive = false; break;
        case ThenLate: lateDone = true; break;
        case DropP: --promises; break;
        case DropT: --tasks; break;
        }
    }
};

// value factories / comparators per result type
template<typename T> struct V;
template<> struct V<QString> {
    static QString make() { return QStringLiteral("value-42"); }
    static QLatin1String convertible() { return QLatin1String("value-42"); }
    static bool ok(const QString &s) { return s == QLatin1String("value-42"); }
    static const char *name() { return "QString"; }
};
template<> struct V<std::unique_ptr<int>> {
    static std::unique_ptr<int> make() { return std::make_unique<int>(42); }
    static int *convertible() { return new int(42); }
    static bool ok(const std::unique_ptr<int> &p) { return p && *p == 42; }
    static const char *name() { return "unique_ptr<int>"; }
};
template<> struct V<Counted> {
    static Counted make() { return Counted(42); }
    static int convertible() { return 42; }
    static bool ok(const Counted &c) { return c.v == 42; }
    static const char *name() { return "Counted"; }
};

struct Outcome {
    int invoked = 0;
    bool valueOk = true;
    int otherInvoked = 0;
    int liveAfter = 0;
    int lateInvoked = 0;
    bool isFinishedSeen = true;
};

template<typename T>
static Outcome execute(const std::vector<int> &seq)
{
    Outcome out;
    const int liveBefore = g_live;
    {
        std::vector<QXmppPromise<T>> promises;
        std::vector<QXmppTask<T>> tasks;
        promises.emplace_back();
        auto *ctx = new QObject;
        // an independent promise B whose continuation must run once when finished from inside a continuation
        QObject otherCtx;
        QXmppPromise<void> other;
        other.task().then(&otherCtx, [&out]() { ++out.otherInvoked; });

        for (int op : seq) {
            // the implementation may have diverged from the model (e.g. a continuation that must not run dropped the
            // task copies): stop executing, the invocation count already differs and is reported
            const bool needsTask = op == CopyT || op == ThenPlain || op == ThenSelfCapture || op == ThenReenter || op == DropT || op == ThenLate;
            const bool needsPromise = op == CopyP || op == GetTask || op == Finish || op == FinishLvalue || op == FinishConvert || op == DropP;
            if ((needsTask && tasks.empty()) || (needsPromise && promises.empty())) {
                break;
            }
            switch (op) {
            case CopyP: promises.push_back(promises.front()); break;
            case GetTask: tasks.push_back(promises.back().task()); break;
            case CopyT: tasks.push_back(tasks.front()); break;
            case ThenPlain:
            case ThenSelfCapture:
            case ThenReenter: {
                Counted token(7);
                if constexpr (std::is_void_v<T>) {
                    if (op == ThenPlain) {
                        tasks.back().then(ctx, [&out, token]() { ++out.invoked; });
                    } else if (op == ThenSelfCapture) {
                        auto self = tasks.back();
                        tasks.back().then(ctx, [&out, token, self]() { ++out.invoked; out.isFinishedSeen = self.isFinished(); });
                    } else {
                        auto self = tasks.back();
                        self.then(ctx, [&out, token, &tasks, &other]() {
                            ++out.invoked;
                            tasks.clear();
                            if (out.otherInvoked == 0) {
                                other.finish();
                            }
                        });
                    }
                } else {
                    if (op == ThenPlain) {
                        tasks.back().then(ctx, [&out, token](T &&v) { ++out.invoked; T taken = std::move(v); out.valueOk = V<T>::ok(taken); });
                    } else if (op == ThenSelfCapture) {
                        auto self = tasks.back();
                        tasks.back().then(ctx, [&out, token, self](T &&v) {
                            ++out.invoked;
                            out.isFinishedSeen = self.isFinished();
                            T taken = std::move(v);
                            out.valueOk = V<T>::ok(taken);
                        });
                    } else {
                        auto self = tasks.back();
                        self.then(ctx, [&out, token, &tasks, &other](T &&v) {
                            ++out.invoked;
                            tasks.clear();
                            if (out.otherInvoked == 0) {
                                other.finish();
                            }
                            T taken = std::move(v);
                            out.valueOk = V<T>::ok(taken);
                        });
                    }
                }
                break;
            }
            case Finish:
            case FinishLvalue:
            case FinishConvert:
                if constexpr (std::is_void_v<T>) {
                    promises.back().finish();
                } else if (op == Finish) {
                    promises.back().finish(V<T>::make());
                } else if (op == FinishLvalue) {
                    // an lvalue selects the converting overload (U = T&)
                    if constexpr (std::is_copy_constructible_v<T>) {
                        T value = V<T>::make();
                        promises.back().finish(value);
                    } else {
                        promises.back().finish(V<T>::make());
                    }
                } else {
                    promises.back().finish(V<T>::convertible());
                }
                break;
            case ThenLate: {
                if (!ctx) {
                    break;
                }
                Counted token(9);
                auto self = tasks.back();
                if constexpr (std::is_void_v<T>) {
                    tasks.back().then(ctx, [&out, token, self]() { ++out.lateInvoked; });
                } else {
                    tasks.back().then(ctx, [&out, token, self](T &&) { ++out.lateInvoked; });
                }
                break;
            }
            case DestroyCtx:
                delete ctx;
                ctx = nullptr;
                break;
            case DropP: promises.pop_back(); break;
            case DropT: tasks.pop_back(); break;
            }
        }
        delete ctx;
        promises.clear();
        tasks.clear();
    }
    out.liveAfter = g_live - liveBefore;
    g_live = liveBefore;   // do not let one leaking sequence poison the following ones
    return out;
}

template<typename T>
static const char *typeName()
{
    if constexpr (std::is_void_v<T>) {
        return "void";
    } else {
        return V<T>::name();
    }
}

static QJsonObject caseJson(const char *type, const std::vector<int> &seq)
{
    QJsonArray names;
    for (int op : seq) {
        names.append(QString::fromLatin1(opNames[op]));
    }
    return { { QStringLiteral("type"), QString::fromLatin1(type) }, { QStringLiteral("ops"), toJsonArray(seq) }, { QStringLiteral("names"), names } };
}

template<typename T>
static void checkSequence(EnumCtx &ctx, const std::vector<int> &seq, const Model &m)
{
    const char *tn = typeName<T>();
    const Outcome o = execute<T>(seq);
    ++ctx.evaluations;
    const bool nontrivial = m.thenDone && m.finished;
    if (nontrivial) {
        ++ctx.nontrivial;
    }
    ctx.count(QStringLiteral("invoked=%1").arg(o.invoked));
    QString order = !m.thenDone ? QStringLiteral("no-then") : (!m.finished ? QStringLiteral("never-finished") : QStringLiteral("both"));
    ctx.outcome(QStringLiteral("%1/%2/%3/%4").arg(QString::fromLatin1(tn)).arg(o.invoked).arg(o.liveAfter).arg(order));
    const QString kind = m.selfCapture ? QStringLiteral("self-capturing") : (m.reenter ? QStringLiteral("re-entering") : QStringLiteral("plain"));
    if (o.invoked != m.expected) {
        ctx.violation(QStringLiteral("C13/continuation-ran-%1-times-expected-%2:%3").arg(o.invoked).arg(m.expected).arg(kind),
                      QStringLiteral("type %1: continuation ran %2 times, reference model says %3").arg(QString::fromLatin1(tn)).arg(o.invoked).arg(m.expected),
                      caseJson(tn, seq));
    } else if (o.invoked && !o.valueOk) {
        ctx.violation(QStringLiteral("C13/wrong-value:%1").arg(kind),
                      QStringLiteral("type %1: continuation did not receive the finished value").arg(QString::fromLatin1(tn)), caseJson(tn, seq));
    } else if (o.invoked && !o.isFinishedSeen) {
        ctx.violation(QStringLiteral("C13/not-finished-inside-continuation"), QStringLiteral("isFinished() false inside continuation"), caseJson(tn, seq));
    }
    if (m.reenter && m.expected == 1 && o.otherInvoked != 1) {
        ctx.violation(QStringLiteral("C13/nested-finish-continuation-count"),
                      QStringLiteral("a promise finished from inside a continuation ran its own continuation %1 times").arg(o.otherInvoked), caseJson(tn, seq));
    }
    // leak oracle; a self-capturing continuation on a promise that is never finished is a cycle only the user can break
    const bool userCycle = m.selfCapture && !m.finished;
    if (o.liveAfter != 0 && !userCycle) {
        QString key = QStringLiteral("C13/leak:%1").arg(kind);
        if (m.selfCapture && m.ctxDeadAtFinishWithContinuation) {
            key = QStringLiteral("C13/continuation-retained-after-finish-with-dead-context");
        }
        ctx.violation(key, QStringLiteral("type %1: %2 counted instances (values/closure tokens) still alive after every handle was dropped")
                               .arg(QString::fromLatin1(tn)).arg(o.liveAfter), caseJson(tn, seq));
    }
    if (userCycle) {
        ctx.count(QStringLiteral("excluded_user_cycles"));
    }
    if (m.lateDone) {
        ctx.count(QStringLiteral("late_continuations"));
        if (o.lateInvoked > 1) {
            ctx.violation(QStringLiteral("C13/late-continuation-ran-%1-times").arg(o.lateInvoked), QStringLiteral("type %1: a continuation attached after the value was consumed ran %2 times").arg(QString::fromLatin1(tn)).arg(o.lateInvoked),
                          caseJson(tn, seq));
        }
    }
    if (ctx.verbose) {
        fprintf(stderr, "type=%s invoked=%d expected=%d valueOk=%d liveAfter=%d other=%d\n", tn, o.invoked, m.expected, o.valueOk, o.liveAfter, o.otherInvoked);
    }
}

template<typename T>
static void enumerate(EnumCtx &ctx, int maxLen)
{
    std::vector<int> seq;
    std::function<void(const Model &)> rec = [&](const Model &m) {
        if (!seq.empty() && ctx.mine()) {
            checkSequence<T>(ctx, seq, m);
            if (int(seq.size()) == maxLen && m.thenDone && m.finished) {
                ctx.sample(caseJson(typeName<T>(), seq), 8);
            }
        }
        if (int(seq.size()) == maxLen) {
            return;
        }
        for (int op = 0; op < NOPS; ++op) {
            if (!m.enabled(op) || (std::is_void_v<T> && (op == FinishLvalue || op == FinishConvert))) {
                continue;
            }
            Model n = m;
            n.apply(op);
            seq.push_back(op);
            rec(n);
            seq.pop_back();
        }
    };
    rec(Model {});
}

template<typename T>
static void replayOne(EnumCtx &ctx, const std::vector<int> &seq)
{
    Model m;
    for (int op : seq) {
        if (!m.enabled(op)) {
            fprintf(stderr, "replay: op %s not enabled\n", opNames[op]);
            exit(3);
        }
        m.apply(op);
    }
    checkSequence<T>(ctx, seq, m);
}

int main(int argc, char **argv)
{
    QCoreApplication app(argc, argv);
    EnumCtx ctx;
    ctx.parseArgs(argc, argv);
    const int maxLen = ctx.opts.value(QStringLiteral("len"), ctx.thorough() ? QStringLiteral("8") : QStringLiteral("6")).toInt();
    if (ctx.replay) {
        std::vector<int> seq;
        for (const auto &v : ctx.replayCase.value(QStringLiteral("ops")).toArray()) {
            seq.push_back(v.toInt());
        }
        const auto t = ctx.replayCase.value(QStringLiteral("type")).toString();
        if (t == QLatin1String("void")) {
            replayOne<void>(ctx, seq);
        } else if (t == QLatin1String("QString")) {
            replayOne<QString>(ctx, seq);
        } else if (t == QLatin1String("Counted")) {
            replayOne<Counted>(ctx, seq);
        } else {
            replayOne<std::unique_ptr<int>>(ctx, seq);
        }
        return ctx.finish();
    }
    enumerate<void>(ctx, maxLen);
    enumerate<QString>(ctx, maxLen);
    enumerate<std::unique_ptr<int>>(ctx, maxLen);
    enumerate<Counted>(ctx, maxLen);
    ctx.count(QStringLiteral("max_len"), ctx.shard == 0 ? maxLen : 0);
    return ctx.finish();
}
