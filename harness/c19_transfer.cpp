// C19 — a transfer reported successful delivered exactly the bytes that were sent. Fault enumeration: two real clients
// with QXmppTransferManager over loopback TCP, the harness relays their stanzas (stamping 'from') and injects one fault.
#include "QXmppTransferManager.h"
#include "clientrig.h"
#include "enumctx.h"

#include <QBuffer>
#include <QCryptographicHash>

using namespace verif;

namespace {

const QByteArray SENDER = "sender@example.org/s";
const QByteArray RECEIVER = "receiver@example.org/r";

enum Fault { None, Drop, DropWithFakeAck, Duplicate, BitFlip, FlipSeq, FlipSid, WrongSidCopy, ForeignSenderCopy, CloseAfter, DataAfterClose, InsertExtra, NFAULT };
const char *faultNames[] = { "none", "drop-block", "drop-block-acked-by-intermediary", "duplicate-block", "bit-flip-in-block", "flip-seq-of-block", "flip-sid-of-block", "copy-with-wrong-sid",
                             "copy-from-other-sender", "close-after-block", "data-after-close", "extra-block-inserted-and-rest-renumbered" };
// does the fault change what the receiver can assemble?
bool contentChanging(int f)
{
    return f == Drop || f == DropWithFakeAck || f == BitFlip || f == FlipSeq || f == FlipSid || f == CloseAfter || f == InsertExtra;
}

struct Case {
    int size, pattern, fault, index;
    bool withHash;
};

QByteArray content(int size, int pattern)
{
    QByteArray b(size, '\0');
    for (int i = 0; i < size; ++i) {
        b[i] = pattern == 0 ? '\0' : (pattern == 1 ? char(i * 31 + 7) : char(0xff));
    }
    return b;
}

QByteArray stamp(const QByteArray &item, const QByteArray &from)
{
    const int sp = item.indexOf(' ');
    const int gt = item.indexOf('>');
    const int pos = (sp >= 0 && sp < gt) ? sp : (item[gt - 1] == '/' ? gt - 1 : gt);
    QByteArray x = item;
    x.insert(pos, " from='" + from + "'");
    return x;
}

struct Run {
    ClientRig s, r;
    QXmppTransferManager *sm = nullptr, *rm = nullptr;
    QBuffer in, out;
    QXmppTransferJob *sjob = nullptr, *rjob = nullptr;
    bool sFinished = false, rFinished = false;
    int senderSawErrorReply = 0;
    int dataBlocksSeen = 0;
    bool faultApplied = false;
    bool closed = false;
    QByteArray lastDataBlock;
    QStringList log;

    explicit Run(int worker) : s(worker * 2), r(worker * 2 + 1) { }
    ~Run()
    {
        s.client.reset();
        r.client.reset();
    }

    bool setup()
    {
        sm = new QXmppTransferManager;
        sm->setSupportedMethods(QXmppTransferJob::InBandMethod);
        s.client->addExtension(sm);
        rm = new QXmppTransferManager;
        rm->setSupportedMethods(QXmppTransferJob::InBandMethod);
        r.client->addExtension(rm);
        QObject::connect(rm, &QXmppTransferManager::fileReceived, &r, [this](QXmppTransferJob *job) {
            rjob = job;
            out.open(QIODevice::WriteOnly);
            QObject::connect(job, &QXmppTransferJob::finished, &r, [this] { rFinished = true; });
            job->accept(&out);
        });
        LoginOptions ls, lr;
        ls.offerSm = lr.offerSm = false;
        ls.boundJid = QString::fromLatin1(SENDER);
        lr.boundJid = QString::fromLatin1(RECEIVER);
        if (!s.listen() || !s.connectClient(s.baseConfig()) || !s.login(ls) || !r.listen() || !r.connectClient(r.baseConfig()) || !r.login(lr)) {
            return false;
        }
        s.sync();
        r.sync();
        return s.client->isConnected() && r.client->isConnected();
    }

    // relays until both sides are quiet; applies the fault of `c` on the index-th data block
    void pump(const Case &c, int maxRounds = 200000)
    {
        int idle = 0;
        for (int round = 0; round < maxRounds && idle < 2; ++round) {
            const auto fromS = s.sync();
            const auto fromR = r.sync();
            bool any = false;
            for (const auto &it : fromS) {
                if (!it.startsWith("<iq") && !it.startsWith("<message")) {
                    continue;
                }
                any = true;
                relayFromSender(it, c);
            }
            for (const auto &it : fromR) {
                if (!it.startsWith("<iq") && !it.startsWith("<message")) {
                    continue;
                }
                any = true;
                if (it.contains("type=\"error\"")) {
                    ++senderSawErrorReply;
                }
                s.server.write(stamp(it, RECEIVER));
            }
            // queued signal emissions (_q_terminated)
            QCoreApplication::processEvents();
            idle = any ? 0 : idle + 1;
        }
    }

    static QByteArray withSeqPlus(QByteArray x, int delta)
    {
        const int p = x.indexOf("seq=\"");
        if (p < 0) {
            return x;
        }
        const int e = x.indexOf('"', p + 5);
        const int v = x.mid(p + 5, e - p - 5).toInt();
        x.replace(p + 5, e - p - 5, QByteArray::number((v + delta) % 65536));
        return x;
    }

    void relayFromSender(const QByteArray &it, const Case &c)
    {
        const bool isData = it.contains("<data xmlns=\"http://jabber.org/protocol/ibb\"");
        const bool isClose = it.contains("<close xmlns=\"http://jabber.org/protocol/ibb\"");
        if (isData) {
            const int idx = dataBlocksSeen++;
            lastDataBlock = it;
            if (c.fault == CloseAfter && faultApplied) {
                return;   // everything after the forged close is lost
            }
            if (c.fault == InsertExtra && faultApplied) {
                r.server.write(stamp(withSeqPlus(it, 1), SENDER));   // the stream stays consecutive for the receiver
                return;
            }
            if (idx == c.index && !faultApplied) {
                QByteArray x = it;
                switch (c.fault) {
                case Drop:
                    faultApplied = true;
                    return;
                case DropWithFakeAck: {
                    faultApplied = true;
                    QDomDocument d;
                    const auto el = parseXml(QByteArray("<w xmlns='jabber:client'>") + it + "</w>", &d).firstChildElement();
                    s.server.write("<iq type='result' id='" + el.attribute(QStringLiteral("id")).toUtf8() + "' from='" + RECEIVER + "'/>");
                    return;
                }
                case Duplicate:
                    faultApplied = true;
                    r.server.write(stamp(it, SENDER));
                    r.server.write(stamp(it, SENDER));
                    return;
                case InsertExtra: {
                    // the payload of this block once more as a regular next block (surplus bytes with valid consecutive numbers)
                    faultApplied = true;
                    r.server.write(stamp(it, SENDER));
                    QByteArray extra = withSeqPlus(it, 1);
                    const int idp = extra.indexOf(" id=\"");
                    if (idp >= 0) {
                        const int ide = extra.indexOf('"', idp + 5);
                        extra.replace(idp + 5, ide - idp - 5, "forged-extra-block");
                    }
                    r.server.write(stamp(extra, SENDER));
                    return;
                }
                case BitFlip: {
                    faultApplied = true;
                    const int gt = x.indexOf('>', x.indexOf("<data"));
                    if (gt + 1 < x.size() && x[gt + 1] != '<') {
                        x[gt + 1] = x[gt + 1] == 'A' ? 'B' : 'A';
                    }
                    r.server.write(stamp(x, SENDER));
                    return;
                }
                case FlipSeq: {
                    faultApplied = true;
                    const int p = x.indexOf("seq=\"");
                    x[p + 5] = x[p + 5] == '1' ? '2' : '1';
                    if (x[p + 6] != '"') {   // make sure the value really changes also for multi-digit numbers
                        x[p + 6] = x[p + 6] == '9' ? '8' : '9';
                    }
                    r.server.write(stamp(x, SENDER));
                    return;
                }
                case FlipSid: {
                    faultApplied = true;
                    const int p = x.indexOf("sid=\"");
                    x[p + 5] = x[p + 5] == 'x' ? 'y' : 'x';
                    r.server.write(stamp(x, SENDER));
                    return;
                }
                case WrongSidCopy: {
                    faultApplied = true;
                    const int p = x.indexOf("sid=\"");
                    x[p + 5] = x[p + 5] == 'x' ? 'y' : 'x';
                    x.replace("id=\"", "id=\"forged-");   // a third party would use its own id
                    r.server.write(stamp(x, SENDER));
                    r.sync();
                    r.server.takeItems();   // the error reply to the forged copy does not go to the sender
                    r.server.write(stamp(it, SENDER));
                    return;
                }
                case ForeignSenderCopy:
                    faultApplied = true;
                    r.server.write(stamp(it, "evil@example.net/x"));
                    r.sync();
                    r.server.takeItems();
                    r.server.write(stamp(it, SENDER));
                    return;
                case CloseAfter: {
                    faultApplied = true;
                    r.server.write(stamp(it, SENDER));
                    r.sync();
                    const int p = it.indexOf("sid=\"");
                    const QByteArray sid = it.mid(p + 5, it.indexOf('"', p + 5) - p - 5);
                    r.server.write("<iq type='set' id='forged-close' from='" + SENDER + "' to='" + RECEIVER + "'><close xmlns='http://jabber.org/protocol/ibb' sid='" + sid + "'/></iq>");
                    r.sync();
                    r.server.takeItems();
                    return;
                }
                default:
                    break;
                }
            }
        }
        r.server.write(stamp(it, SENDER));
        if (isClose) {
            closed = true;
            if (c.fault == DataAfterClose && !faultApplied && !lastDataBlock.isEmpty()) {
                faultApplied = true;
                r.sync();
                QByteArray x = lastDataBlock;
                x.replace("id=\"", "id=\"late-");
                r.server.write(stamp(x, SENDER));
                r.sync();
                r.server.takeItems();
            }
        }
    }
};

QJsonObject caseJson(const Case &c)
{
    return { { QStringLiteral("size"), c.size }, { QStringLiteral("pattern"), c.pattern }, { QStringLiteral("fault"), c.fault }, { QStringLiteral("faultName"), QString::fromLatin1(faultNames[c.fault]) },
             { QStringLiteral("index"), c.index }, { QStringLiteral("hash"), c.withHash } };
}

void evalCase(EnumCtx &ctx, const Case &c)
{
    Run run(ctx.shard);
    if (!run.setup()) {
        fprintf(stderr, "INTERNAL: setup failed: %s %s\n", qPrintable(run.s.error), qPrintable(run.r.error));
        exit(3);
    }
    const QByteArray data = content(c.size, c.pattern);
    run.in.setData(data);
    run.in.open(QIODevice::ReadOnly);
    QXmppTransferFileInfo info;
    info.setName(QStringLiteral("file.bin"));
    info.setSize(c.size);
    if (c.withHash) {
        info.setHash(QCryptographicHash::hash(data, QCryptographicHash::Md5));
    }
    run.sjob = run.sm->sendFile(QString::fromLatin1(RECEIVER), &run.in, info, QStringLiteral("sidA1"));
    QObject::connect(run.sjob, &QXmppTransferJob::finished, &run.s, [&run] { run.sFinished = true; });
    run.pump(c);
    ++ctx.evaluations;
    if (c.fault != None) {
        ++ctx.nontrivial;
    }
    const int nblocks = (c.size + 4095) / 4096;
    const bool faultHappened = c.fault == None || run.faultApplied;
    const bool sOk = run.sFinished && run.sjob->error() == QXmppTransferJob::NoError;
    const bool rOk = run.rFinished && run.rjob && run.rjob->error() == QXmppTransferJob::NoError;
    const bool exact = run.out.data() == data;
    const QString pos = nblocks <= 1 ? QStringLiteral("only") : (c.index == 0 ? QStringLiteral("first") : (c.index == nblocks - 1 ? QStringLiteral("last") : QStringLiteral("middle")));
    const QString tag = QString::fromLatin1(faultNames[c.fault]) + QLatin1Char(':') + pos;
    ctx.count(QStringLiteral("fault:") + QString::fromLatin1(faultNames[c.fault]) + (faultHappened ? QString() : QStringLiteral("(not applicable)")));
    ctx.outcome(QStringLiteral("%1/%2/%3/%4").arg(sOk).arg(rOk).arg(exact).arg(tag));
    if (ctx.verbose) {
        fprintf(stderr, "size=%d blocks=%d fault=%s@%d applied=%d senderOk=%d(err %d) receiverOk=%d(err %d) exact=%d errorReplies=%d received=%d\n", c.size, nblocks, faultNames[c.fault], c.index, run.faultApplied, sOk,
                run.sjob ? int(run.sjob->error()) : -1, rOk, run.rjob ? int(run.rjob->error()) : -1, exact, run.senderSawErrorReply, int(run.out.data().size()));
    }
    if (!faultHappened) {
        return;
    }
    const bool undetectable = c.fault == BitFlip && !c.withHash;
    const bool changes = contentChanging(c.fault) && !(c.fault == CloseAfter && c.index >= nblocks - 1);   // a close after the last block cuts nothing
    if (rOk && !exact && !undetectable) {
        ctx.violation(QStringLiteral("C19/receiver-reports-success-with-wrong-bytes:") + tag, QStringLiteral("receiver reports success but holds %1 bytes that differ from the %2 bytes sent").arg(run.out.data().size()).arg(c.size), caseJson(c));
    }
    if (changes && rOk && !undetectable) {
        ctx.violation(QStringLiteral("C19/receiver-reports-success-despite-fault:") + tag, QStringLiteral("fault %1 on block %2 of %3: the receiver reports success").arg(QString::fromLatin1(faultNames[c.fault])).arg(c.index).arg(nblocks),
                      caseJson(c));
    }
    if (!changes) {
        if (!(sOk && rOk && exact) && c.fault != CloseAfter) {
            ctx.violation(QStringLiteral("C19/honest-transfer-failed:") + tag,
                          QStringLiteral("size %1, %2: sender ok=%3 (finished %4), receiver ok=%5 (finished %6), exact copy=%7").arg(c.size).arg(QString::fromLatin1(faultNames[c.fault])).arg(sOk).arg(run.sFinished).arg(rOk)
                              .arg(run.rFinished).arg(exact), caseJson(c));
        }
    }
    if (sOk && run.senderSawErrorReply > 0 && changes) {
        ctx.violation(QStringLiteral("C19/sender-reports-success-although-peer-refused:") + tag,
                      QStringLiteral("the receiver refused a request (%1 error replies reached the sender) but the sender reports success; receiver ok=%2 exact=%3").arg(run.senderSawErrorReply).arg(rOk).arg(exact), caseJson(c));
    }
}

// the receiver against a scripted sender: more than 65536 one-byte blocks (16-bit sequence counter must wrap)
void longRun(EnumCtx &ctx, int blocks)
{
    ClientRig r(ctx.shard * 2 + 1);
    auto *rm = new QXmppTransferManager;
    rm->setSupportedMethods(QXmppTransferJob::InBandMethod);
    r.client->addExtension(rm);
    QBuffer out;
    QXmppTransferJob *rjob = nullptr;
    bool finished = false;
    QObject::connect(rm, &QXmppTransferManager::fileReceived, &r, [&](QXmppTransferJob *job) {
        rjob = job;
        out.open(QIODevice::WriteOnly);
        QObject::connect(job, &QXmppTransferJob::finished, &r, [&] { finished = true; });
        job->accept(&out);
    });
    LoginOptions lr;
    lr.offerSm = false;
    lr.boundJid = QString::fromLatin1(RECEIVER);
    if (!r.listen() || !r.connectClient(r.baseConfig()) || !r.login(lr)) {
        fprintf(stderr, "INTERNAL: setup failed\n");
        exit(3);
    }
    r.sync();
    const QJsonObject cj { { QStringLiteral("long"), blocks } };
    auto send = [&](const QByteArray &x) {
        r.server.write(x);
        return r.sync();
    };
    QByteArray expect;
    send("<iq type='set' id='si1' from='" + SENDER + "' to='" + RECEIVER + "'><si xmlns='http://jabber.org/protocol/si' id='sidL' profile='http://jabber.org/protocol/si/profile/file-transfer'>"
         "<file xmlns='http://jabber.org/protocol/si/profile/file-transfer' name='long.bin' size='" + QByteArray::number(blocks) + "'/><feature xmlns='http://jabber.org/protocol/feature-neg'>"
         "<x xmlns='jabber:x:data' type='form'><field var='stream-method' type='list-single'><option><value>http://jabber.org/protocol/ibb</value></option></field></x></feature></si></iq>");
    send("<iq type='set' id='open1' from='" + SENDER + "' to='" + RECEIVER + "'><open xmlns='http://jabber.org/protocol/ibb' block-size='4096' sid='sidL' stanza='iq'/></iq>");
    int refusedAt = -1;
    for (int i = 0; i < blocks; ++i) {
        const QByteArray payload(1, char('a' + i % 26));
        expect += payload;
        r.server.write("<iq type='set' id='d" + QByteArray::number(i) + "' from='" + SENDER + "' to='" + RECEIVER + "'><data xmlns='http://jabber.org/protocol/ibb' seq='" + QByteArray::number(i % 65536) + "' sid='sidL'>" +
                       payload.toBase64() + "</data></iq>");
        if (i % 64 == 63 || i >= 65530) {
            const auto items = r.sync();
            for (const auto &it : items) {
                if (it.contains("type=\"error\"") && refusedAt < 0) {
                    refusedAt = i;
                }
            }
            if (refusedAt >= 0) {
                break;
            }
        }
    }
    send("<iq type='set' id='close1' from='" + SENDER + "' to='" + RECEIVER + "'><close xmlns='http://jabber.org/protocol/ibb' sid='sidL'/></iq>");
    QCoreApplication::processEvents();
    ++ctx.evaluations;
    ++ctx.nontrivial;
    ctx.count(QStringLiteral("long_runs"));
    const bool ok = finished && rjob && rjob->error() == QXmppTransferJob::NoError && out.data() == expect;
    if (!ok) {
        ctx.violation(QStringLiteral("C19/seq-wrap-65536"), QStringLiteral("a conforming transfer of %1 blocks failed: first refusal around block %2, finished=%3 error=%4, %5 bytes received").arg(blocks).arg(refusedAt).arg(finished)
                          .arg(rjob ? int(rjob->error()) : -1).arg(out.data().size()), cj);
    }
    r.client.reset();
}

}  // namespace

int main(int argc, char **argv)
{
    QCoreApplication app(argc, argv);
    EnumCtx ctx;
    ctx.parseArgs(argc, argv);
    if (ctx.replay) {
        const auto &rc = ctx.replayCase;
        if (rc.contains(QStringLiteral("long"))) {
            longRun(ctx, rc.value(QStringLiteral("long")).toInt());
        } else {
            evalCase(ctx, { rc.value(QStringLiteral("size")).toInt(), rc.value(QStringLiteral("pattern")).toInt(), rc.value(QStringLiteral("fault")).toInt(), rc.value(QStringLiteral("index")).toInt(),
                            rc.value(QStringLiteral("hash")).toBool() });
        }
        return ctx.finish();
    }
    const QList<int> sizes = ctx.thorough() ? QList<int> { 0, 1, 2, 4095, 4096, 4097, 8191, 8192, 8193, 12288, 12289, 20481, 40961 } : QList<int> { 0, 1, 4095, 4096, 4097, 12289 };
    for (int size : sizes) {
        const int nblocks = (size + 4095) / 4096;
        for (int pattern = 0; pattern < 3; ++pattern) {
            if (pattern != 1 && !ctx.thorough() && size > 4097) {
                continue;
            }
            for (int hash = 0; hash < 2; ++hash) {
                for (int f = 0; f < NFAULT; ++f) {
                    const int nIdx = (f == None || f == DataAfterClose) ? 1 : qMax(1, nblocks);
                    for (int idx = 0; idx < nIdx; ++idx) {
                        if (f != None && nblocks == 0 && f != DataAfterClose) {
                            continue;   // no data blocks to tamper with
                        }
                        if (ctx.mine()) {
                            Case c { size, pattern, f, idx, bool(hash) };
                            evalCase(ctx, c);
                            if (size == 12289 && idx == 3 && ctx.samples.size() < 5) {   // (a 4-block transfer)
                                ctx.sample(caseJson(c));
                            }
                        }
                    }
                }
            }
        }
    }
    if (ctx.mine()) {
        longRun(ctx, 65537 + 40);
    }
    return ctx.finish();
}
