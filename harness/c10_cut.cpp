// C10 — connection loss at any point of negotiation leaves a consistent client that can reconnect.
// Fault enumeration: (script variant, resume answer, cut point, cut kind) for up to three consecutive attempts,
// real QXmppClient over loopback TCP.
#include "QXmppIq.h"
#include "clientrig.h"
#include "enumctx.h"

using namespace verif;

namespace {

enum Variant { SaslBind, SaslBindSm, Sasl2Bind2Sm, SaslBindSmNoResume, NVARIANT };
const char *variantNames[] = { "sasl+bind", "sasl+bind+sm", "sasl2+bind2+sm(inline)", "sasl+bind+sm(not resumable)" };

// symbolic cut points; the server closes right after the named send (and the client's reaction to it)
enum Cut { AfterAccept, AfterFeatures1, AfterSuccess, AfterFeatures2, AfterResumeAnswer, AfterBindResult, AfterEnabled, AfterEstablished, NoCut, NCUT };
const char *cutNames[] = { "after-accept", "after-features", "after-sasl-success", "after-post-auth-features", "after-resume-answer", "after-bind-result", "after-enabled",
                           "after-session-established", "none" };

struct Attempt {
    int variant;
    bool acceptResume;
    int cut;
    bool fin;   // FIN instead of RST
    // the connection ends with a see-other-host stream error pointing back at the harness (the client reconnects by itself):
    // 0 = no, 1 = <stream:error/> alone, 2 = <stream:error/></stream:stream> in one write
    int redirect = 0;
};

struct Request {
    int completions = 0;
    bool error = false;
    bool mustBeDone = false;
};

struct Exec {
    ClientRig rig;
    QStringList problems;   // (key|message)
    std::vector<Request> requests;
    int sessions = 0;
    QString smId;
    bool resumableSession = false;   // model: the last established session can be resumed
    bool verbose = false;
    bool redirected = false;   // the last attempt ended with a redirect: the next TCP connection was opened by the client itself
    bool redirectGivenUp = false;
    int connectingBeforeLoss = 0, errorsBeforeLoss = 0;
    int stateReportsBase = 0;   // stateChanged(ConnectedState) emissions before the TCP connection of the current attempt was opened   // ... or the client did not follow it and is disconnected
    QStringList trace;

    explicit Exec(int worker) : rig(worker) { }
    // the client's destructor completes outstanding tasks, whose continuations touch members of this object
    ~Exec() { rig.client.reset(); }

    void problem(const QString &key, const QString &msg) { problems << key + QLatin1Char('|') + msg; }

    // returns: 0 = cut point reached and connection closed, 1 = ran to the end (established), -1 = cut point not on this path, -2 = negotiation error
    int runAttempt(const Attempt &a, int attemptNo, bool *established, bool *resumed)
    {
        *established = false;
        *resumed = false;
        // headerOwed: the client has opened a stream that the server has not answered yet (a stream error needs the header first)
        auto cutHere = [&](int point, bool negotiationComplete = false, bool headerOwed = false) {
            if (!negotiationComplete && point != AfterEstablished && rig.connectedStateReports != stateReportsBase) {
                problem(QStringLiteral("session-reported-before-negotiation-finished"),
                        QStringLiteral("attempt %1: stateChanged(ConnectedState) was emitted %2 time(s) before the negotiation reached '%3'").arg(attemptNo).arg(rig.connectedStateReports - stateReportsBase).arg(QString::fromLatin1(cutNames[point])));
                stateReportsBase = rig.connectedStateReports;
            }
            if (a.cut == point) {
                if (negotiationComplete) {
                    *established = true;   // the last negotiation element was delivered: a session may be reported
                }
                trace << QStringLiteral("cut %1").arg(QString::fromLatin1(cutNames[point]));
                if (a.redirect) {
                    const int before = rig.server.acceptedCount();
                    stateReportsBase = rig.connectedStateReports;
                    rig.server.write((headerOwed ? serverHeader() : QByteArray()) + "<stream:error><see-other-host xmlns='urn:ietf:params:xml:ns:xmpp-streams'>" + rig.server.host().toUtf8() + ":" + QByteArray::number(rig.server.port()) +
                                     "</see-other-host></stream:error>" + (a.redirect == 2 ? "</stream:stream>" : ""));
                    // either the client follows the redirect (a new TCP connection that stays open) or it gives up and is disconnected
                    rig.server.pumpUntil([&] { return rig.server.acceptedCount() > before || (rig.csock()->state() == QAbstractSocket::UnconnectedState && !rig.sp()->redirect.has_value()); }, 3000);
                    rig.server.barrier(rig.csock());   // (what the client wrote on the new connection is read by the next attempt)
                    redirected = rig.server.acceptedCount() > before && rig.csock()->state() == QAbstractSocket::ConnectedState;
                    if (!redirected) {
                        // not following a redirect is not a violation of this property: it counts as a plain connection loss
                        if (rig.server.peer()) {
                            rig.server.closePeer(true);
                        }
                        rig.sync();
                        redirectGivenUp = true;
                    }
                    return true;
                }
                connectingBeforeLoss = rig.connectingStateReports;
                errorsBeforeLoss = rig.errorSignals;
                rig.server.closePeer(!a.fin);
                rig.sync();
                // give a client that (wrongly) dials again by itself the chance to show it
                for (int i = 0; i < 3; ++i) {
                    QCoreApplication::processEvents();
                }
                rig.sync();
                return true;
            }
            return false;
        };
        const int connectedBefore = rig.connectedSignals;
        auto items = rig.sync();
        if (rig.client->isConnected() || rig.client->isAuthenticated()) {
            problem(QStringLiteral("session-reported-before-negotiation-finished"),
                    QStringLiteral("attempt %1: a fresh TCP connection was just opened and nothing is negotiated, but isConnected()=%2 isAuthenticated()=%3").arg(attemptNo).arg(rig.client->isConnected()).arg(rig.client->isAuthenticated()));
        }
        if (!ClientRig::firstElement(items).startsWith("<stream:stream")) {
            problem(QStringLiteral("no-fresh-stream-header"), QStringLiteral("attempt %1 did not start with a stream header: %2").arg(attemptNo).arg(QString::fromUtf8(items.join(' ').left(120))));
            return -2;
        }
        if (cutHere(AfterAccept, false, true)) {
            return 0;
        }
        const bool sasl2 = a.variant == Sasl2Bind2Sm;
        if (!sasl2) {
            items = rig.serverSend(serverHeader() + "<stream:features><mechanisms xmlns='urn:ietf:params:xml:ns:xmpp-sasl'><mechanism>ANONYMOUS</mechanism></mechanisms></stream:features>");
            if (!ClientRig::firstElement(items).startsWith("<auth")) {
                problem(QStringLiteral("negotiation-not-restarted"), QStringLiteral("attempt %1: expected <auth/>, got %2").arg(attemptNo).arg(QString::fromUtf8(items.join(' ').left(160))));
                return -2;
            }
            if (cutHere(AfterFeatures1)) {
                return 0;
            }
            items = rig.serverSend("<success xmlns='urn:ietf:params:xml:ns:xmpp-sasl'/>");
            if (!ClientRig::firstElement(items).startsWith("<stream:stream")) {
                problem(QStringLiteral("negotiation-not-restarted"), QStringLiteral("attempt %1: expected stream restart, got %2").arg(attemptNo).arg(QString::fromUtf8(items.join(' ').left(160))));
                return -2;
            }
            if (cutHere(AfterSuccess, false, true)) {
                return 0;
            }
            const bool sm = a.variant != SaslBind;
            items = rig.serverSend(serverHeader() + "<stream:features><bind xmlns='urn:ietf:params:xml:ns:xmpp-bind'/>" + (sm ? "<sm xmlns='urn:xmpp:sm:3'/>" : "") + "</stream:features>");
            auto el = ClientRig::firstElement(items);
            if (cutHere(AfterFeatures2)) {
                return 0;
            }
            if (el.startsWith("<resume")) {
                if (a.acceptResume) {
                    rig.serverSend("<resumed xmlns='urn:xmpp:sm:3' previd='" + smId.toUtf8() + "' h='0'/>");
                    *resumed = true;
                    if (cutHere(AfterResumeAnswer, true)) {
                        return 0;
                    }
                    goto establishedLabel;
                }
                items = rig.serverSend("<failed xmlns='urn:xmpp:sm:3'><item-not-found xmlns='urn:ietf:params:xml:ns:xmpp-stanzas'/></failed>");
                el = ClientRig::firstElement(items);
                if (cutHere(AfterResumeAnswer)) {
                    return 0;
                }
            } else if (a.cut == AfterResumeAnswer) {
                return -1;
            }
            if (!el.startsWith("<iq") || !el.contains("xmpp-bind")) {
                problem(QStringLiteral("negotiation-not-restarted"), QStringLiteral("attempt %1: expected bind request, got %2").arg(attemptNo).arg(QString::fromUtf8(items.join(' ').left(160))));
                return -2;
            }
            {
                QDomDocument d;
                const auto bindEl = parseXml(QByteArray("<w xmlns='jabber:client'>") + el + "</w>", &d).firstChildElement();
                resumableSession = false;   // a new session was bound; it becomes resumable only with <enabled resume/>
                items = rig.serverSend("<iq type='result' id='" + bindEl.attribute(QStringLiteral("id")).toUtf8() + "'><bind xmlns='urn:ietf:params:xml:ns:xmpp-bind'><jid>user@example.org/r</jid></bind></iq>");
            }
            if (cutHere(AfterBindResult, !sm)) {
                return 0;
            }
            if (sm) {
                if (!ClientRig::firstElement(items).startsWith("<enable")) {
                    problem(QStringLiteral("negotiation-not-restarted"), QStringLiteral("attempt %1: expected <enable/>, got %2").arg(attemptNo).arg(QString::fromUtf8(items.join(' ').left(160))));
                    return -2;
                }
                smId = QStringLiteral("sm%1").arg(++sessions);
                resumableSession = a.variant == SaslBindSm;
                rig.serverSend("<enabled xmlns='urn:xmpp:sm:3' id='" + smId.toUtf8() + "'" + (a.variant == SaslBindSm ? " resume='true'" : "") + "/>");
                if (cutHere(AfterEnabled, true)) {
                    return 0;
                }
            } else if (a.cut == AfterEnabled) {
                return -1;
            }
        } else {
            items = rig.serverSend(serverHeader() +
                                   "<stream:features><authentication xmlns='urn:xmpp:sasl:2'><mechanism>ANONYMOUS</mechanism><inline><bind xmlns='urn:xmpp:bind:0'><inline>"
                                   "<feature var='urn:xmpp:sm:3'/></inline></bind><sm xmlns='urn:xmpp:sm:3'/></inline></authentication></stream:features>");
            const auto el = ClientRig::firstElement(items);
            if (!el.startsWith("<authenticate")) {
                problem(QStringLiteral("negotiation-not-restarted"), QStringLiteral("attempt %1: expected <authenticate/>, got %2").arg(attemptNo).arg(QString::fromUtf8(items.join(' ').left(160))));
                return -2;
            }
            if (cutHere(AfterFeatures1)) {
                return 0;
            }
            const bool asksResume = el.contains("<resume");
            QByteArray success = "<success xmlns='urn:xmpp:sasl:2'><authorization-identifier>user@example.org/r</authorization-identifier>";
            if (asksResume && a.acceptResume) {
                success += "<resumed xmlns='urn:xmpp:sm:3' previd='" + smId.toUtf8() + "' h='0'/>";
                *resumed = true;
            } else {
                if (asksResume) {
                    success += "<failed xmlns='urn:xmpp:sm:3'><item-not-found xmlns='urn:ietf:params:xml:ns:xmpp-stanzas'/></failed>";
                }
                smId = QStringLiteral("sm%1").arg(++sessions);
                resumableSession = true;
                success += "<bound xmlns='urn:xmpp:bind:0'><enabled xmlns='urn:xmpp:sm:3' id='" + smId.toUtf8() + "' resume='true'/></bound>";
            }
            success += "</success>";
            rig.serverSend(success);
            if (cutHere(AfterSuccess, *resumed)) {
                return 0;
            }
            if (a.cut == AfterResumeAnswer || a.cut == AfterBindResult || a.cut == AfterEnabled) {
                return -1;
            }
            if (!*resumed) {
                rig.serverSend("<stream:features/>");
                if (cutHere(AfterFeatures2, true)) {
                    return 0;
                }
            } else if (a.cut == AfterFeatures2) {
                return -1;
            }
        }
    establishedLabel:
        if (a.cut != NoCut && a.cut != AfterEstablished) {
            return -1;   // the chosen cut point does not lie on the path this attempt took
        }
        *established = true;
        // ---- the negotiation is complete: the client must report exactly one session for this connection
        if (!rig.client->isConnected() || rig.client->state() != QXmppClient::ConnectedState || !rig.client->isAuthenticated()) {
            problem(QStringLiteral("no-session-after-complete-negotiation"),
                    QStringLiteral("attempt %1 (%2): negotiation finished but isConnected=%3 state=%4 isAuthenticated=%5").arg(attemptNo).arg(QString::fromLatin1(variantNames[a.variant]))
                        .arg(rig.client->isConnected()).arg(int(rig.client->state())).arg(rig.client->isAuthenticated()));
        }
        if (rig.connectedSignals - connectedBefore != 1) {
            problem(QStringLiteral("connected-signal-count"), QStringLiteral("attempt %1: connected emitted %2 times for one established session").arg(attemptNo).arg(rig.connectedSignals - connectedBefore));
        }
        const bool smNow = a.variant != SaslBind;
        const auto smState = rig.client->streamManagementState();
        const auto wantState = !smNow ? QXmppClient::NoStreamManagement : (*resumed ? QXmppClient::ResumedStream : QXmppClient::NewStream);
        if (smState != wantState) {
            problem(QStringLiteral("stream-management-state-wrong"), QStringLiteral("attempt %1: streamManagementState() is %2, expected %3").arg(attemptNo).arg(int(smState)).arg(int(wantState)));
        }
        if (!*resumed) {
            // a session that is not a resumption: everything outstanding from earlier sessions must be complete now
            for (auto &r : requests) {
                r.mustBeDone = true;
            }
        }

        checkRequests(QStringLiteral("attempt %1 established").arg(attemptNo));
        // issue one request on this session
        {
            const int idx = int(requests.size());
            requests.push_back({});
            QXmppIq iq(QXmppIq::Get);
            iq.setId(QStringLiteral("q%1").arg(idx + 1));
            iq.setTo(QStringLiteral("service.example.org"));
            rig.client->sendIq(std::move(iq)).then(&rig, [this, idx](QXmppClient::IqResult &&r) {
                ++requests[size_t(idx)].completions;
                requests[size_t(idx)].error = std::holds_alternative<QXmppError>(r);
            });
            rig.sync();
        }
        if (cutHere(AfterEstablished)) {
            // (after a redirect the requests of a session that cannot be resumed are demanded complete when the next session is established)
            if (!resumableSession && !(a.redirect && redirected)) {
                for (auto &r : requests) {
                    r.mustBeDone = true;
                }
            }
            return 0;
        }
        return 1;
    }

    void checkRequests(const QString &ctx)
    {
        for (size_t i = 0; i < requests.size(); ++i) {
            const auto &r = requests[i];
            if (r.completions > 1) {
                problem(QStringLiteral("request-completed-twice"), QStringLiteral("%1: request q%2 completed %3 times").arg(ctx).arg(i + 1).arg(r.completions));
            }
            if (r.mustBeDone && r.completions == 0) {
                problem(QStringLiteral("request-left-pending"), QStringLiteral("%1: request q%2 of an earlier, non-resumed session is still pending").arg(ctx).arg(i + 1));
            }
            if (r.completions >= 1 && !r.error) {
                problem(QStringLiteral("request-completed-with-value"), QStringLiteral("%1: request q%2 completed with a value although nobody answered").arg(ctx).arg(i + 1));
            }
        }
    }

    void checkDisconnected(const Attempt &a, int attemptNo, bool established, int connectedBefore)
    {
        const QString ctx = QStringLiteral("attempt %1 (%2, cut %3%4)").arg(attemptNo).arg(QString::fromLatin1(variantNames[a.variant]), QString::fromLatin1(cutNames[a.cut]), a.redirect ? QStringLiteral(", redirect") : a.fin ? QStringLiteral(", FIN") : QString());
        if (a.redirect && redirected) {
            // the client is on its way to the other host: it must not report a session (checked when the next attempt starts)
            if (!established && rig.connectedSignals != connectedBefore) {
                problem(QStringLiteral("session-reported-before-negotiation-finished"), ctx + QStringLiteral(": connected() was emitted although the negotiation never finished"));
            }
            checkRequests(ctx);
            return;
        }
        if (!a.redirect && rig.connectingStateReports != connectingBeforeLoss) {
            // automatic reconnection is switched off in the configuration: after a plain loss nobody asked for a new connection
            problem(QStringLiteral("connects-by-itself-after-loss"), QStringLiteral("%1: the client entered the Connecting state %2 time(s) by itself after the connection was lost").arg(ctx).arg(rig.connectingStateReports - connectingBeforeLoss));
        }
        if (rig.client->state() != QXmppClient::DisconnectedState || rig.client->isConnected()) {
            problem(QStringLiteral("not-disconnected-after-loss"), QStringLiteral("%1: state()=%2 isConnected()=%3 after the connection was lost").arg(ctx).arg(int(rig.client->state())).arg(rig.client->isConnected()));
        }
        if (rig.client->isAuthenticated()) {
            problem(QStringLiteral("authenticated-after-loss"), ctx + QStringLiteral(": isAuthenticated() still true after the connection was lost"));
        }
        if (!established && rig.connectedSignals != connectedBefore) {
            problem(QStringLiteral("session-reported-before-negotiation-finished"), ctx + QStringLiteral(": connected() was emitted although the negotiation never finished"));
        }
        checkRequests(ctx);
    }
};

QJsonObject caseJson(const std::vector<Attempt> &as)
{
    QJsonArray arr;
    QStringList desc;
    for (const auto &a : as) {
        arr.append(QJsonObject { { QStringLiteral("variant"), a.variant }, { QStringLiteral("accept"), a.acceptResume }, { QStringLiteral("cut"), a.cut }, { QStringLiteral("fin"), a.fin }, { QStringLiteral("redirect"), a.redirect } });
        desc << QStringLiteral("%1/%2/cut=%3%4").arg(QString::fromLatin1(variantNames[a.variant]), a.acceptResume ? QStringLiteral("resume-ok") : QStringLiteral("resume-refused"), QString::fromLatin1(cutNames[a.cut]),
                                                   a.redirect == 2 ? QStringLiteral("(redirect+close)") : a.redirect ? QStringLiteral("(redirect)") : a.fin ? QStringLiteral("(FIN)") : QString());
    }
    return { { QStringLiteral("attempts"), arr }, { QStringLiteral("desc"), desc.join(QStringLiteral(" ; ")) } };
}

// returns false when a cut point was not on the path (case does not exist)
bool runCase(EnumCtx &ctx, const std::vector<Attempt> &as)
{
    Exec x(ctx.shard);
    x.verbose = ctx.verbose;
    if (!x.rig.listen()) {
        fprintf(stderr, "INTERNAL: listen failed\n");
        exit(3);
    }
    bool exists = true;
    for (size_t i = 0; i < as.size(); ++i) {
        const int connectedBefore = x.rig.connectedSignals;
        if (!x.redirected) {
            x.stateReportsBase = x.rig.connectedStateReports;
        }
        const bool ok = i == 0 ? x.rig.connectClient(x.rig.baseConfig()) : (x.redirected ? true : x.rig.reconnectClient());
        x.redirected = false;
        if (!ok) {
            x.problem(QStringLiteral("reconnect-failed"), QStringLiteral("attempt %1: the client did not open a TCP connection").arg(i + 1));
            break;
        }
        bool established = false, resumed = false;
        const int r = x.runAttempt(as[i], int(i + 1), &established, &resumed);
        if (r == -1) {
            exists = false;
            break;
        }
        if (r == -2) {
            break;
        }
        if (r == 0) {
            x.checkDisconnected(as[i], int(i + 1), established, connectedBefore);
            ctx.count(QStringLiteral("cuts:") + QString::fromLatin1(cutNames[as[i].cut]));
            if (as[i].redirect) {
                ctx.count(x.redirected ? QStringLiteral("redirects_followed") : QStringLiteral("redirects_given_up"));
            }
        } else {
            ctx.count(resumed ? QStringLiteral("final_resumed") : QStringLiteral("final_new_session"));
        }
        if (!x.rig.error.isEmpty()) {
            fprintf(stderr, "INTERNAL: %s\n", qPrintable(x.rig.error));
            exit(3);
        }
    }
    if (!exists) {
        return false;
    }
    ++ctx.evaluations;
    if (as.size() >= 2) {
        ++ctx.nontrivial;
    }
    QSet<QString> keys;
    for (const auto &p : std::as_const(x.problems)) {
        const auto key = p.section(QLatin1Char('|'), 0, 0);
        if (keys.contains(key)) {
            continue;
        }
        keys.insert(key);
        ctx.violation(QStringLiteral("C10/") + key, p.section(QLatin1Char('|'), 1) + QStringLiteral(" | case: ") + caseJson(as).value(QStringLiteral("desc")).toString(), caseJson(as));
    }
    QStringList rq;
    for (const auto &r : x.requests) {
        rq << QStringLiteral("%1%2").arg(r.completions).arg(r.error);
    }
    ctx.outcome(rq.join(QLatin1Char(',')) + QStringLiteral("|%1|%2").arg(x.rig.connectedSignals).arg(int(x.rig.client->state())));
    if (ctx.verbose) {
        for (const auto &e : std::as_const(x.rig.events)) {
            fprintf(stderr, "  %s\n", qPrintable(e));
        }
        for (const auto &w : std::as_const(x.rig.wire)) {
            fprintf(stderr, "  C>S %s\n", w.left(160).constData());
        }
    }
    return true;
}

}  // namespace

int main(int argc, char **argv)
{
    QCoreApplication app(argc, argv);
    EnumCtx ctx;
    ctx.parseArgs(argc, argv);
    if (ctx.replay) {
        std::vector<Attempt> as;
        for (const auto &v : ctx.replayCase.value(QStringLiteral("attempts")).toArray()) {
            const auto o = v.toObject();
            as.push_back({ o.value(QStringLiteral("variant")).toInt(), o.value(QStringLiteral("accept")).toBool(), o.value(QStringLiteral("cut")).toInt(), o.value(QStringLiteral("fin")).toBool(), o.value(QStringLiteral("redirect")).toInt() });
        }
        runCase(ctx, as);
        return ctx.finish();
    }
    const int maxAttempts = ctx.opts.value(QStringLiteral("attempts"), QStringLiteral("3")).toInt();
    std::vector<Attempt> finals, cuts;
    for (int v = 0; v < NVARIANT; ++v) {
        for (int acc = 0; acc < 2; ++acc) {
            finals.push_back({ v, bool(acc), NoCut, false });
            for (int c = AfterAccept; c <= AfterEstablished; ++c) {
                cuts.push_back({ v, bool(acc), c, false });
                if (ctx.thorough() || c == AfterFeatures2 || c == AfterEstablished || c == AfterSuccess) {
                    cuts.push_back({ v, bool(acc), c, true });
                }
                // see-other-host instead of a connection loss
                if (ctx.thorough() || c == AfterAccept || c == AfterFeatures2 || c == AfterEstablished || c == AfterEnabled) {
                    cuts.push_back({ v, bool(acc), c, false, 1 });
                    if (ctx.thorough() || c == AfterEstablished) {
                        cuts.push_back({ v, bool(acc), c, false, 2 });
                    }
                }
            }
        }
    }
    // 1 attempt
    for (const auto &f : finals) {
        if (f.acceptResume) {
            continue;   // nothing to resume on a first attempt: identical to the refused variant
        }
        if (ctx.mine()) {
            runCase(ctx, { f });
        }
    }
    // 2 attempts
    for (const auto &c1 : cuts) {
        if (c1.acceptResume) {
            continue;
        }
        for (const auto &f : finals) {
            if (ctx.mine()) {
                if (runCase(ctx, { c1, f }) && ctx.samples.size() < 3 && c1.cut == AfterEstablished) {
                    ctx.sample(caseJson({ c1, f }));
                }
            }
        }
    }
    // 3 attempts
    if (maxAttempts >= 3) {
        for (const auto &c1 : cuts) {
            if (c1.acceptResume || ((c1.fin || (c1.redirect && !(c1.redirect == 1 && c1.cut == AfterEstablished))) && !ctx.thorough())) {
                continue;   // quick: FIN and redirects not in the first of three attempts, except a followed redirect of an established session
            }
            for (const auto &c2 : cuts) {
                if (c2.fin && !ctx.thorough()) {
                    continue;
                }
                for (const auto &f : finals) {
                    if (ctx.mine()) {
                        if (runCase(ctx, { c1, c2, f }) && ctx.samples.size() < 6 && c2.cut == AfterEstablished && c1.cut == AfterEstablished) {
                            ctx.sample(caseJson({ c1, c2, f }));
                        }
                    }
                }
            }
        }
    }
    return ctx.finish();
}
