// C01 / C02 — codec registry x corpus x mutation closure.
//   --opt engine=c01 : round trip of output-form documents (self-admission, fixpoint up to sibling order, free-text
//                      preservation / no markup injection at probed free-text sites, monotonicity under deletion /
//                      duplication of children) + object-level round trip of typed integer fields.
//   --opt engine=c02 : hostile structural mutations of every admitted document: no crash / UB (ASan+UBSan build, one
//                      forked child per batch), no hang (alarm), output well-formed, one parse/serialize pass is an
//                      EXACT fixpoint.
#include "QXmppArchiveIq.h"
#include "QXmppBindIq.h"
#include "QXmppBitsOfBinaryIq.h"
#include "QXmppBookmarkSet.h"
#include "QXmppByteStreamIq.h"
#include "QXmppDataForm.h"
#include "QXmppDiscoveryIq.h"
#include "QXmppEntityTimeIq.h"
#include "QXmppExternalServiceDiscoveryIq.h"
#include "QXmppFallback.h"
#include "QXmppHttpUploadIq.h"
#include "QXmppIbbIq.h"
#include "QXmppIq.h"
#include "QXmppJingleIq.h"
#include "QXmppMamIq.h"
#include "QXmppMessage.h"
#include "QXmppMessageReaction.h"
#include "QXmppMixInvitation.h"
#include "QXmppMixIq.h"
#include "QXmppMucIq.h"
#include "QXmppNonSASLAuth.h"
#include "QXmppPingIq.h"
#include "QXmppPresence.h"
#include "QXmppPubSubEvent.h"
#include "QXmppPubSubIq_p.h"
#include "QXmppPushEnableIq.h"
#include "QXmppRegisterIq.h"
#include "QXmppRosterIq.h"
#include "QXmppRpcIq.h"
#include "QXmppSasl_p.h"
#include "QXmppStreamFeatures.h"
#include "QXmppStreamInitiationIq_p.h"
#include "QXmppStreamManagement_p.h"
#include "QXmppTrustMessageElement.h"
#include "QXmppUtils_p.h"
#include "QXmppVCardIq.h"
#include "QXmppVersionIq.h"
#include "Stream.h"
#include "QXmppExternalService.h"
#include "QXmppFileMetadata.h"
#include "QXmppThumbnail.h"
#include "QXmppUserTuneItem.h"
#include "QXmppPubSubNodeConfig.h"
#include "QXmppPubSubSubscribeOptions.h"
#include "QXmppResultSet.h"
#include "QXmppJingleData.h"
#include "clientrig.h"
#include "enumctx.h"
#include "managers.h"

#include <QFile>

#include <csignal>
#include <sys/wait.h>
#include <unistd.h>

using namespace verif;
using namespace QXmpp::Private;

namespace {

struct Codec {
    QString name;
    bool typeChecked;   // false: applied to every document (message, presence, generic IQ, data form, error, stream features)
    std::function<bool(const QDomElement &)> admit;
    std::function<QByteArray(const QDomElement &)> roundTrip;   // parse then serialize
};

template<typename T>
QByteArray rtParse(const QDomElement &e)
{
    T x;
    x.parse(e);
    return writeXml([&](QXmlStreamWriter *w) { x.toXml(w); });
}

template<typename T>
Codec iq(const char *name, bool (*pred)(const QDomElement &))
{
    return { QString::fromLatin1(name), true, [pred](const QDomElement &e) { return e.tagName() == QLatin1String("iq") && pred(e); }, [](const QDomElement &e) { return rtParse<T>(e); } };
}

// payload element classes (no <iq/> wrapper)
template<typename T>
Codec elem(const char *name, bool (*pred)(const QDomElement &))
{
    return { QString::fromLatin1(name), true, [pred](const QDomElement &e) { return pred(e); }, [](const QDomElement &e) { return rtParse<T>(e); } };
}

template<typename T>
Codec any(const char *name, const char *rootTag = nullptr)
{
    const QString tag = rootTag ? QString::fromLatin1(rootTag) : QString();
    return { QString::fromLatin1(name), false, [tag](const QDomElement &e) { return tag.isEmpty() || e.tagName() == tag; }, [](const QDomElement &e) { return rtParse<T>(e); } };
}

template<typename T>
Codec nonza(const char *name)
{
    return { QString::fromLatin1(name), true, [](const QDomElement &e) { return T::fromDom(e).has_value(); },
             [](const QDomElement &e) {
                 auto v = T::fromDom(e);
                 return v ? writeXml([&](QXmlStreamWriter *w) { v->toXml(w); }) : QByteArray();
             } };
}

std::vector<Codec> registry()
{
    std::vector<Codec> r;
    // --- parsers without a type check
    r.push_back(any<QXmppMessage>("QXmppMessage", "message"));
    r.push_back(any<QXmppPresence>("QXmppPresence", "presence"));
    r.push_back(any<QXmppIq>("QXmppIq", "iq"));
    r.push_back({ QStringLiteral("QXmppDataForm"), false, [](const QDomElement &e) { return e.tagName() == QLatin1String("x"); }, [](const QDomElement &e) { return rtParse<QXmppDataForm>(e); } });
    r.push_back({ QStringLiteral("QXmppStanza::Error"), false, [](const QDomElement &e) { return e.tagName() == QLatin1String("error") && e.namespaceURI() != QLatin1String("http://etherx.jabber.org/streams"); },
                  [](const QDomElement &e) { return rtParse<QXmppStanza::Error>(e); } });
    r.push_back(any<QXmppStreamFeatures>("QXmppStreamFeatures", "stream:features"));
    // hostile use: the same parsers on ANY element (C02 only; marked by the "*" suffix)
    r.push_back(any<QXmppMessage>("QXmppMessage*"));
    r.push_back(any<QXmppPresence>("QXmppPresence*"));
    r.push_back(any<QXmppIq>("QXmppIq*"));
    r.push_back(any<QXmppDataForm>("QXmppDataForm*"));
    r.push_back(any<QXmppStanza::Error>("QXmppStanza::Error*"));
    r.push_back(any<QXmppStreamFeatures>("QXmppStreamFeatures*"));
    // --- IQ payload classes
    r.push_back(iq<QXmppRosterIq>("QXmppRosterIq", &QXmppRosterIq::isRosterIq));
    r.push_back(iq<QXmppRegisterIq>("QXmppRegisterIq", &QXmppRegisterIq::isRegisterIq));
    r.push_back(iq<QXmppBitsOfBinaryIq>("QXmppBitsOfBinaryIq", &QXmppBitsOfBinaryIq::isBitsOfBinaryIq));
    r.push_back(iq<QXmppRpcResponseIq>("QXmppRpcResponseIq", &QXmppRpcResponseIq::isRpcResponseIq));
    r.push_back(iq<QXmppRpcInvokeIq>("QXmppRpcInvokeIq", &QXmppRpcInvokeIq::isRpcInvokeIq));
    r.push_back(iq<QXmppRpcErrorIq>("QXmppRpcErrorIq", &QXmppRpcErrorIq::isRpcErrorIq));
    r.push_back(iq<QXmppPushEnableIq>("QXmppPushEnableIq", &QXmppPushEnableIq::isPushEnableIq));
    r.push_back(iq<QXmppExternalServiceDiscoveryIq>("QXmppExternalServiceDiscoveryIq", &QXmppExternalServiceDiscoveryIq::isExternalServiceDiscoveryIq));
    r.push_back(iq<QXmppByteStreamIq>("QXmppByteStreamIq", &QXmppByteStreamIq::isByteStreamIq));
    r.push_back(iq<QXmppMixIq>("QXmppMixIq", &QXmppMixIq::isMixIq));
    r.push_back(iq<QXmppHttpUploadRequestIq>("QXmppHttpUploadRequestIq", &QXmppHttpUploadRequestIq::isHttpUploadRequestIq));
    r.push_back(iq<QXmppHttpUploadSlotIq>("QXmppHttpUploadSlotIq", &QXmppHttpUploadSlotIq::isHttpUploadSlotIq));
    r.push_back(iq<QXmppDiscoveryIq>("QXmppDiscoveryIq", &QXmppDiscoveryIq::isDiscoveryIq));
    r.push_back(iq<QXmppEntityTimeIq>("QXmppEntityTimeIq", &QXmppEntityTimeIq::isEntityTimeIq));
    r.push_back(iq<QXmppMucAdminIq>("QXmppMucAdminIq", &QXmppMucAdminIq::isMucAdminIq));
    r.push_back(iq<QXmppMucOwnerIq>("QXmppMucOwnerIq", &QXmppMucOwnerIq::isMucOwnerIq));
    r.push_back(iq<QXmppIbbOpenIq>("QXmppIbbOpenIq", &QXmppIbbOpenIq::isIbbOpenIq));
    r.push_back(iq<QXmppIbbCloseIq>("QXmppIbbCloseIq", &QXmppIbbCloseIq::isIbbCloseIq));
    r.push_back(iq<QXmppIbbDataIq>("QXmppIbbDataIq", &QXmppIbbDataIq::isIbbDataIq));
    r.push_back(iq<QXmppBindIq>("QXmppBindIq", &QXmppBindIq::isBindIq));
    r.push_back(iq<QXmppVCardIq>("QXmppVCardIq", &QXmppVCardIq::isVCard));
    r.push_back(iq<QXmppNonSASLAuthIq>("QXmppNonSASLAuthIq", &QXmppNonSASLAuthIq::isNonSASLAuthIq));
    r.push_back(iq<QXmppStreamInitiationIq>("QXmppStreamInitiationIq", &QXmppStreamInitiationIq::isStreamInitiationIq));
    r.push_back(iq<QXmppPingIq>("QXmppPingIq", &QXmppPingIq::isPingIq));
    r.push_back(iq<QXmppJingleIq>("QXmppJingleIq", &QXmppJingleIq::isJingleIq));
    r.push_back(iq<QXmppMamQueryIq>("QXmppMamQueryIq", &QXmppMamQueryIq::isMamQueryIq));
    r.push_back(iq<QXmppMamResultIq>("QXmppMamResultIq", &QXmppMamResultIq::isMamResultIq));
    r.push_back(iq<QXmppArchiveChatIq>("QXmppArchiveChatIq", &QXmppArchiveChatIq::isArchiveChatIq));
    r.push_back(iq<QXmppArchiveListIq>("QXmppArchiveListIq", &QXmppArchiveListIq::isArchiveListIq));
    r.push_back(iq<QXmppArchiveRemoveIq>("QXmppArchiveRemoveIq", &QXmppArchiveRemoveIq::isArchiveRemoveIq));
    r.push_back(iq<QXmppArchiveRetrieveIq>("QXmppArchiveRetrieveIq", &QXmppArchiveRetrieveIq::isArchiveRetrieveIq));
    r.push_back(iq<QXmppArchivePrefIq>("QXmppArchivePrefIq", &QXmppArchivePrefIq::isArchivePrefIq));
    r.push_back(iq<QXmppVersionIq>("QXmppVersionIq", &QXmppVersionIq::isVersionIq));
    r.push_back(iq<PubSubIq<>>("PubSubIq<>", &PubSubIq<>::isPubSubIq));
    r.push_back(elem<QXmppPubSubEvent<>>("QXmppPubSubEvent<>", &QXmppPubSubEvent<>::isPubSubEvent));
    // --- message payload elements
    r.push_back(elem<QXmppTrustMessageElement>("QXmppTrustMessageElement", &QXmppTrustMessageElement::isTrustMessageElement));
    r.push_back(elem<QXmppMessageReaction>("QXmppMessageReaction", &QXmppMessageReaction::isMessageReaction));
    r.push_back(elem<QXmppMixInvitation>("QXmppMixInvitation", &QXmppMixInvitation::isMixInvitation));
    r.push_back(elem<QXmppBookmarkSet>("QXmppBookmarkSet", &QXmppBookmarkSet::isBookmarkSet));
    r.push_back(elem<QXmppJingleMessageInitiationElement>("QXmppJingleMessageInitiationElement", &QXmppJingleMessageInitiationElement::isJingleMessageInitiationElement));
    r.push_back(elem<QXmppCallInviteElement>("QXmppCallInviteElement", &QXmppCallInviteElement::isCallInviteElement));
    r.push_back(nonza<QXmppFallback>("QXmppFallback"));
    // --- nonzas
    r.push_back(nonza<StarttlsRequest>("StarttlsRequest"));
    r.push_back(nonza<StarttlsProceed>("StarttlsProceed"));
    r.push_back(nonza<Sasl::Auth>("Sasl::Auth"));
    r.push_back(nonza<Sasl::Challenge>("Sasl::Challenge"));
    r.push_back(nonza<Sasl::Failure>("Sasl::Failure"));
    r.push_back(nonza<Sasl::Response>("Sasl::Response"));
    r.push_back(nonza<Sasl::Success>("Sasl::Success"));
    r.push_back(nonza<Sasl2::StreamFeature>("Sasl2::StreamFeature"));
    r.push_back(nonza<Sasl2::UserAgent>("Sasl2::UserAgent"));
    r.push_back(nonza<Sasl2::Authenticate>("Sasl2::Authenticate"));
    r.push_back(nonza<Sasl2::Challenge>("Sasl2::Challenge"));
    r.push_back(nonza<Sasl2::Response>("Sasl2::Response"));
    r.push_back(nonza<Sasl2::Success>("Sasl2::Success"));
    r.push_back(nonza<Sasl2::Failure>("Sasl2::Failure"));
    r.push_back(nonza<Sasl2::Continue>("Sasl2::Continue"));
    r.push_back(nonza<Sasl2::Abort>("Sasl2::Abort"));
    r.push_back(nonza<FastFeature>("FastFeature"));
    r.push_back(nonza<FastTokenRequest>("FastTokenRequest"));
    r.push_back(nonza<FastToken>("FastToken"));
    r.push_back(nonza<FastRequest>("FastRequest"));
    r.push_back(nonza<Bind2Feature>("Bind2Feature"));
    r.push_back(nonza<Bind2Request>("Bind2Request"));
    r.push_back(nonza<Bind2Bound>("Bind2Bound"));
    r.push_back(nonza<SmEnable>("SmEnable"));
    r.push_back(nonza<SmEnabled>("SmEnabled"));
    r.push_back(nonza<SmResume>("SmResume"));
    r.push_back(nonza<SmResumed>("SmResumed"));
    r.push_back(nonza<SmFailed>("SmFailed"));
    r.push_back(nonza<SmAck>("SmAck"));
    r.push_back(nonza<SmRequest>("SmRequest"));
    return r;
}

// ----------------------------------------------------------------------------------------- DOM helpers
QDomElement parseDoc(const QByteArray &xml, QDomDocument *doc, bool wrap)
{
    if (!wrap) {
        return parseXml(xml, doc);
    }
    const auto root = parseXml(QByteArray("<w xmlns='jabber:client' xmlns:stream='http://etherx.jabber.org/streams'>") + xml + "</w>", doc);
    return root.firstChildElement();
}

QByteArray domToBytes(const QDomElement &e)
{
    QString s;
    QTextStream ts(&s);
    e.save(ts, -1);
    return s.toUtf8();
}

// all element nodes in document order (depth-limited)
void collect(const QDomElement &e, QList<QDomElement> &out, int depth, int maxDepth)
{
    out << e;
    if (depth >= maxDepth) {
        return;
    }
    for (auto c = e.firstChildElement(); !c.isNull(); c = c.nextSiblingElement()) {
        collect(c, out, depth + 1, maxDepth);
    }
}

// path separator: a character that cannot occur in a name or namespace (URL namespaces contain '/')
static const QChar PSEP(0x1f);
static QString showPath(QString p) { return p.replace(PSEP, QStringLiteral(" / ")); }

QString pathOf(const QDomElement &e, const QDomElement &root)
{
    QStringList parts;
    QDomElement cur = e;
    while (!cur.isNull() && cur != root) {
        int idx = 0;
        for (auto s = cur.previousSiblingElement(); !s.isNull(); s = s.previousSiblingElement()) {
            if (s.tagName() == cur.tagName() && s.namespaceURI() == cur.namespaceURI()) {
                ++idx;
            }
        }
        parts.prepend(QStringLiteral("%1{%2}[%3]").arg(cur.localName().isEmpty() ? cur.tagName() : cur.localName(), cur.namespaceURI()).arg(idx));
        cur = cur.parentNode().toElement();
    }
    return parts.join(PSEP);
}

QDomElement findPath(const QDomElement &root, const QString &path)
{
    if (path.isEmpty()) {
        return root;
    }
    QDomElement cur = root;
    for (const auto &part : path.split(PSEP)) {
        const QString name = part.section(QLatin1Char('{'), 0, 0);
        const QString ns = part.section(QLatin1Char('{'), 1).section(QLatin1Char('}'), 0, 0);
        const int want = part.section(QLatin1Char('['), -1).section(QLatin1Char(']'), 0, 0).toInt();
        int idx = 0;
        QDomElement found;
        for (auto c = cur.firstChildElement(); !c.isNull(); c = c.nextSiblingElement()) {
            const QString ln = c.localName().isEmpty() ? c.tagName() : c.localName();
            if (ln == name && c.namespaceURI() == ns) {
                if (idx == want) {
                    found = c;
                    break;
                }
                ++idx;
            }
        }
        if (found.isNull()) {
            return {};
        }
        cur = found;
    }
    return cur;
}

QString skeleton(const QDomElement &e)
{
    QString s = QLatin1Char('<') + e.tagName() + QLatin1Char('{') + e.namespaceURI() + QLatin1Char('}');
    QStringList kids;
    for (auto c = e.firstChildElement(); !c.isNull(); c = c.nextSiblingElement()) {
        kids << skeleton(c);
    }
    kids.sort();
    return s + kids.join(QString()) + QLatin1Char('>');
}

int g_markerFd = -1;
int g_evalAlarm = 0;   // seconds allowed per evaluation (hang oracle); 0 = only the per-seed alarm
void marker(int si, const QString &codec, const QString &op)
{
    if (g_evalAlarm > 0) {
        alarm(unsigned(g_evalAlarm));
    }
    if (g_markerFd >= 0) {
        const QByteArray m = QByteArray::number(si) + "\t" + codec.toUtf8() + "\t" + op.toUtf8() + "\n";
        if (write(g_markerFd, m.constData(), size_t(m.size())) < 0) {
            _exit(3);
        }
    }
}

struct Seed {
    QString src;
    QByteArray xml;
};

std::vector<Seed> loadCorpus(const QString &path)
{
    std::vector<Seed> seeds;
    QFile f(path);
    if (!f.open(QIODevice::ReadOnly)) {
        fprintf(stderr, "INTERNAL: cannot open corpus %s\n", qPrintable(path));
        exit(3);
    }
    while (!f.atEnd()) {
        const auto o = QJsonDocument::fromJson(f.readLine()).object();
        if (o.contains(QStringLiteral("xml"))) {
            seeds.push_back({ o.value(QStringLiteral("src")).toString(), o.value(QStringLiteral("xml")).toString().toUtf8() });
        }
    }
    return seeds;
}

bool needsWrap(const QByteArray &xml)
{
    // stanzas and stream-prefixed elements rely on the stream's namespace declarations
    return !xml.contains("xmlns=") || xml.startsWith("<iq") || xml.startsWith("<message") || xml.startsWith("<presence") || xml.startsWith("<stream:") || xml.startsWith("<error");
}

QJsonObject caseJson(const QString &engine, int seedIdx, const QString &codec, const QString &op, const QByteArray &doc)
{
    return { { QStringLiteral("engine"), engine }, { QStringLiteral("seed"), seedIdx }, { QStringLiteral("codec"), codec }, { QStringLiteral("op"), op }, { QStringLiteral("doc"), QString::fromUtf8(doc) } };
}

// ----------------------------------------------------------------------------------------- C01 engine
const QStringList TEXT_ALPHABET = { QStringLiteral("<inj xmlns='urn:inj'/>"), QStringLiteral("&amp;<>\"'"), QStringLiteral("é世\U0001F600"), QStringLiteral("x  y"), QStringLiteral("]]>"),
                                    QString(4096, QLatin1Char('a')) };

struct C01 {
    EnumCtx &ctx;
    std::vector<Codec> reg;
    QSet<QString> sitesSeen;

    // E1 (output form) -> serialized again; returns parsed result in doc
    bool roundTrip(const Codec &c, const QDomElement &e, QByteArray *out, QDomDocument *doc, QDomElement *parsed)
    {
        *out = c.roundTrip(e);
        *parsed = parseDoc(*out, doc, true);
        return !parsed->isNull();
    }

    void checkSeedCodec(int seedIdx, const Codec &c, const QDomElement &e0)
    {
        QDomDocument d1;
        QByteArray o1;
        QDomElement e1;
        ++ctx.evaluations;
        const bool parsedOk = roundTrip(c, e0, &o1, &d1, &e1);
        if (ctx.replay) {
            fprintf(stderr, "seed  : %s\noutput: %s\n", domToBytes(e0).left(2000).constData(), o1.left(2000).constData());
        }
        if (o1.trimmed().isEmpty()) {
            ctx.count(QStringLiteral("empty_outputs_skipped"));   // the object has no serialisation at all (e.g. an error without condition)
            return;
        }
        if (!parsedOk) {
            ctx.violation(QStringLiteral("C01/output-not-well-formed:") + c.name, QStringLiteral("serialising a parsed seed gives ill-formed XML: %1").arg(QString::fromUtf8(o1.left(300))),
                          caseJson(QStringLiteral("c01"), seedIdx, c.name, QStringLiteral("seed"), domToBytes(e0)));
            return;
        }
        // a seed whose payload the codec does not know at all is answered with an empty stanza: nothing to round-trip
        if (e1.firstChildElement().isNull() && !e0.firstChildElement().isNull() && e1.attributes().count() <= e0.attributes().count() && e1.text().isEmpty()) {
            ctx.count(QStringLiteral("payload_discarded_skipped"));
            return;
        }
        // (i) self-admission and fixpoint up to sibling order
        if (!c.admit(e1)) {
            ctx.violation(QStringLiteral("C01/own-output-not-admitted:") + c.name, QStringLiteral("the codec does not accept its own output: %1").arg(QString::fromUtf8(o1.left(300))),
                          caseJson(QStringLiteral("c01"), seedIdx, c.name, QStringLiteral("seed"), domToBytes(e0)));
            return;
        }
        QDomDocument d2;
        QByteArray o2;
        QDomElement e2;
        if (!roundTrip(c, e1, &o2, &d2, &e2) || canonXml(e2, true) != canonXml(e1, true)) {
            ctx.violation(QStringLiteral("C01/not-a-fixpoint:") + c.name, QStringLiteral("parse+serialize of the codec's own output changes it: %1 -> %2").arg(QString::fromUtf8(o1.left(400)), QString::fromUtf8(o2.left(400))),
                          caseJson(QStringLiteral("c01"), seedIdx, c.name, QStringLiteral("seed"), domToBytes(e0)));
            return;
        }
        ctx.count(QStringLiteral("admitted_pairs"));
        ++ctx.nontrivial;
        cooccurrence(seedIdx, c, e0, e1);
        // mutation closure (k = 1) of the output-form document
        QList<QDomElement> els;
        collect(e1, els, 0, 6);
        for (const auto &el : std::as_const(els)) {
            const QString path = pathOf(el, e1);
            // attributes
            const auto attrs = el.attributes();
            QStringList attrNames;
            for (int i = 0; i < attrs.count(); ++i) {
                const auto a = attrs.item(i).toAttr();
                if (a.name() != QLatin1String("xmlns") && !a.name().startsWith(QLatin1String("xmlns:"))) {
                    attrNames << a.name();
                }
            }
            for (const auto &an : std::as_const(attrNames)) {
                probeSite(seedIdx, c, e1, path, an);
            }
            // leaf text
            if (el.firstChildElement().isNull() && !el.text().isEmpty()) {
                probeSite(seedIdx, c, e1, path, QString());
            }
        }
        // delete / duplicate children at depth 1 and 2 : what is outside the edited child must survive
        for (const auto &el : std::as_const(els)) {
            const QString path = pathOf(el, e1);
            const int depth = path.isEmpty() ? 0 : path.count(PSEP) + 1;
            if (depth == 0 || depth > 2) {
                continue;
            }
            structural(seedIdx, c, e1, path, true);
            structural(seedIdx, c, e1, path, false);
            // thorough: every pair of siblings absent ("all combinations of present/absent optional fields" up to two absences)
            if (ctx.thorough()) {
                for (auto sib = el.nextSiblingElement(); !sib.isNull(); sib = sib.nextSiblingElement()) {
                    structural(seedIdx, c, e1, path, true, pathOf(sib, e1));
                }
            }
        }
    }

    static QString valueAt(const QDomElement &root, const QString &path, const QString &attr, bool *found)
    {
        const auto el = findPath(root, path);
        *found = !el.isNull() && (attr.isEmpty() || el.hasAttribute(attr));
        if (el.isNull()) {
            return {};
        }
        return attr.isEmpty() ? el.text() : el.attribute(attr);
    }

    QDomElement mutateValue(const QDomElement &e1, const QString &path, const QString &attr, const QString &value, QDomDocument *doc)
    {
        *doc = QDomDocument();
        doc->appendChild(doc->importNode(e1, true));
        auto root = doc->documentElement();
        auto el = findPath(root, path);
        if (el.isNull()) {
            return {};
        }
        if (attr.isEmpty()) {
            while (!el.firstChild().isNull()) {
                el.removeChild(el.firstChild());
            }
            el.appendChild(doc->createTextNode(value));
        } else {
            el.setAttribute(attr, value);
        }
        // re-parse so that namespaces are processed like for wire input
        const QByteArray bytes = domToBytes(root);
        *doc = QDomDocument();
        return parseDoc(bytes, doc, true);
    }

    void probeSite(int seedIdx, const Codec &c, const QDomElement &e1, const QString &path, const QString &attr)
    {
        const QString sig = c.name + QLatin1Char('|') + path + QLatin1Char('@') + attr;
        QDomDocument dm, dr;
        const auto m = mutateValue(e1, path, attr, QStringLiteral("zzz"), &dm);
        if (m.isNull() || !c.admit(m)) {
            return;
        }
        QByteArray out;
        QDomElement r;
        ++ctx.evaluations;
        if (!roundTrip(c, m, &out, &dr, &r)) {
            return;
        }
        bool found = false;
        if (valueAt(r, path, attr, &found) != QLatin1String("zzz") || !found) {
            return;   // enumerated / structured / numeric site: nothing is demanded here
        }
        {
            // second probe: URL-, JID- or token-typed fields keep 'zzz' but not arbitrary text
            QDomDocument dmp, drp;
            const auto mp = mutateValue(e1, path, attr, QStringLiteral("z z%:z"), &dmp);
            QByteArray outp;
            QDomElement rp;
            bool fp = false;
            if (mp.isNull() || !c.admit(mp) || !roundTrip(c, mp, &outp, &drp, &rp) || valueAt(rp, path, attr, &fp) != QLatin1String("z z%:z") || !fp) {
                return;
            }
        }
        if (!sitesSeen.contains(sig)) {
            sitesSeen.insert(sig);
            ctx.count(QStringLiteral("free_text_sites"));
        }
        const QString skel = skeleton(r);
        for (const auto &v : TEXT_ALPHABET) {
            QDomDocument dm2, dr2;
            const auto m2 = mutateValue(e1, path, attr, v, &dm2);
            if (m2.isNull() || !c.admit(m2)) {
                continue;
            }
            QByteArray out2;
            QDomElement r2;
            ++ctx.evaluations;
            ++ctx.nontrivial;
            const QString site = c.name + QLatin1Char(':') + (path.section(PSEP, -1).section(QLatin1Char('{'), 0, 0)) + QLatin1Char('@') + (attr.isEmpty() ? QStringLiteral("#text") : attr);
            if (!roundTrip(c, m2, &out2, &dr2, &r2)) {
                ctx.violation(QStringLiteral("C01/markup-injection-or-ill-formed-output:") + site, QStringLiteral("value %1 at %2 makes the output ill-formed: %3").arg(v.left(30), showPath(sig), QString::fromUtf8(out2.left(300))),
                              caseJson(QStringLiteral("c01"), seedIdx, c.name, QStringLiteral("text:%1@%2").arg(showPath(path), attr), domToBytes(m2)));
                continue;
            }
            if (skeleton(r2) != skel) {
                ctx.violation(QStringLiteral("C01/markup-injection:") + site, QStringLiteral("value %1 at %2 changes the element structure of the output: %3").arg(v.left(30), showPath(sig), QString::fromUtf8(out2.left(300))),
                              caseJson(QStringLiteral("c01"), seedIdx, c.name, QStringLiteral("text:%1@%2").arg(showPath(path), attr), domToBytes(m2)));
                continue;
            }
            bool f2 = false;
            const QString got = valueAt(r2, path, attr, &f2);
            // attribute values: XML itself normalises nothing here (no tabs/newlines in the alphabet)
            if (!f2 || got != v) {
                ctx.violation(QStringLiteral("C01/free-text-not-preserved:") + site,
                              QStringLiteral("site %1 keeps 'zzz' but value '%2' comes back as '%3'").arg(showPath(sig), v.left(40), f2 ? got.left(40) : QStringLiteral("(absent)")),
                              caseJson(QStringLiteral("c01"), seedIdx, c.name, QStringLiteral("text:%1@%2").arg(showPath(path), attr), domToBytes(m2)));
            }
        }
    }

    // Combinations of present/absent fields taken from real documents: a child of the seed that does not come back from the round trip
    // although it does come back once ONE sibling (of another kind) is removed was dropped because of that sibling. Only pairs that
    // occur together in a corpus document are judged, so mutually exclusive children are never demanded together.
    static QStringList childCanons(const QDomElement &parent)
    {
        QStringList l;
        for (auto ch = parent.firstChildElement(); !ch.isNull(); ch = ch.nextSiblingElement()) {
            l << canonXml(ch, true);
        }
        return l;
    }
    void cooccurrence(int seedIdx, const Codec &c, const QDomElement &e0, const QDomElement &r0)
    {
        QList<QDomElement> parents;
        collect(e0, parents, 0, 1);
        for (const auto &parent : std::as_const(parents)) {
            const QString ppath = pathOf(parent, e0);
            const auto rp0 = findPath(r0, ppath);
            const QStringList have0 = rp0.isNull() ? QStringList() : childCanons(rp0);
            for (auto ch = parent.firstChildElement(); !ch.isNull(); ch = ch.nextSiblingElement()) {
                const QString want = canonXml(ch, true);
                if (have0.contains(want)) {
                    continue;
                }
                // lost in the full document: does it survive without one of its siblings?
                for (auto sib = parent.firstChildElement(); !sib.isNull(); sib = sib.nextSiblingElement()) {
                    if (sib == ch || (sib.tagName() == ch.tagName() && sib.namespaceURI() == ch.namespaceURI())) {
                        continue;
                    }
                    // two encodings of one field (the object stores a single value and writes one of them)
                    static const QStringList alternativeEncodings = { QStringLiteral("x{jabber:x:delay}|delay{urn:xmpp:delay}") };
                    const QString a = QStringLiteral("%1{%2}").arg(ch.tagName(), ch.namespaceURI()), b = QStringLiteral("%1{%2}").arg(sib.tagName(), sib.namespaceURI());
                    if (alternativeEncodings.contains(a + QLatin1Char('|') + b) || alternativeEncodings.contains(b + QLatin1Char('|') + a)) {
                        continue;
                    }
                    QDomDocument d;
                    d.appendChild(d.importNode(e0, true));
                    auto victim = findPath(d.documentElement(), pathOf(sib, e0));
                    if (victim.isNull()) {
                        continue;
                    }
                    victim.parentNode().removeChild(victim);
                    QDomDocument dm, dr;
                    const auto m = parseDoc(domToBytes(d.documentElement()), &dm, true);
                    if (m.isNull() || !c.admit(m)) {
                        continue;
                    }
                    QByteArray out;
                    QDomElement r;
                    ++ctx.evaluations;
                    ++ctx.nontrivial;
                    ctx.count(QStringLiteral("cooccurrence_probes"));
                    if (!roundTrip(c, m, &out, &dr, &r)) {
                        continue;
                    }
                    const auto rp = findPath(r, ppath);
                    if (!rp.isNull() && childCanons(rp).contains(want)) {
                        const QString cn = ch.tagName(), sn = sib.tagName();
                        ctx.violation(QStringLiteral("C01/child-lost-only-next-to-sibling:%1:%2+%3").arg(c.name, cn, sn),
                                      QStringLiteral("<%1 xmlns='%2'/> does not survive the round trip of the corpus document, but does once its sibling <%3 xmlns='%4'/> is removed: %5")
                                          .arg(cn, ch.namespaceURI(), sn, sib.namespaceURI(), QString::fromUtf8(domToBytes(e0).left(400))),
                                      caseJson(QStringLiteral("c01"), seedIdx, c.name, QStringLiteral("cooccurrence:%1+%2").arg(cn, sn), domToBytes(e0)));
                        break;
                    }
                }
            }
        }
    }

    void structural(int seedIdx, const Codec &c, const QDomElement &e1, const QString &path, bool del, const QString &path2 = {})
    {
        QDomDocument d;
        d.appendChild(d.importNode(e1, true));
        auto root = d.documentElement();
        auto el = findPath(root, path);
        if (el.isNull()) {
            return;
        }
        auto parent = el.parentNode().toElement();
        QDomElement el2;
        if (!path2.isEmpty()) {
            el2 = findPath(root, path2);
            if (el2.isNull() || el2.parentNode() != el.parentNode()) {
                return;
            }
        }
        // documented dependencies between sibling fields (deleting one makes the document one the writer never produces)
        static const QStringList dependentParents = { QStringLiteral("reason{urn:xmpp:jingle:1}"), QStringLiteral("time{urn:xmpp:time}"), QStringLiteral("file-sharing{urn:xmpp:sfs:0}") };
        if (del && dependentParents.contains(QStringLiteral("%1{%2}").arg(parent.localName().isEmpty() ? parent.tagName() : parent.localName(), parent.namespaceURI()))) {
            return;
        }
        if (del) {
            parent.removeChild(el);
            if (!el2.isNull()) {
                parent.removeChild(el2);
            }
        } else {
            parent.insertAfter(el.cloneNode(true), el);
        }
        QDomDocument dm, dr;
        const auto m = parseDoc(domToBytes(root), &dm, true);
        if (m.isNull() || !c.admit(m)) {
            return;
        }
        QByteArray out;
        QDomElement r;
        ++ctx.evaluations;
        ++ctx.nontrivial;
        ctx.count(!path2.isEmpty() ? QStringLiteral("child_pair_deletions") : del ? QStringLiteral("child_deletions") : QStringLiteral("child_duplications"));
        if (!roundTrip(c, m, &out, &dr, &r)) {
            return;
        }
        // monotonicity: every sibling of the edited child (same parent) that is present in M must still be present in the output
        const QString parentPath = path.contains(PSEP) ? path.section(PSEP, 0, -2) : QString();
        const auto mp = findPath(m, parentPath);
        const auto rp = findPath(r, parentPath);
        if (mp.isNull()) {
            return;
        }
        QStringList want, have;
        const QString editedTag = path.section(PSEP, -1).section(QLatin1Char('['), 0, 0);
        const QString editedTag2 = path2.section(PSEP, -1).section(QLatin1Char('['), 0, 0);
        for (auto ch = mp.firstChildElement(); !ch.isNull(); ch = ch.nextSiblingElement()) {
            const QString tag = QStringLiteral("%1{%2}").arg(ch.localName().isEmpty() ? ch.tagName() : ch.localName(), ch.namespaceURI());
            if (tag != editedTag && tag != editedTag2) {
                want << canonXml(ch, true);
            }
        }
        if (!rp.isNull()) {
            for (auto ch = rp.firstChildElement(); !ch.isNull(); ch = ch.nextSiblingElement()) {
                have << canonXml(ch, true);
            }
        }
        for (const auto &w : std::as_const(want)) {
            if (!have.contains(w)) {
                const QString lostTag = w.mid(1, w.indexOf(QLatin1Char('>')) - 1).section(QLatin1Char(' '), 0, 0);
                ctx.violation(QStringLiteral("C01/sibling-lost-when-%1-%2:%3:%4").arg(del ? QStringLiteral("deleting") : QStringLiteral("duplicating"), editedTag.section(QLatin1Char('{'), 0, 0) + (path2.isEmpty() ? QString() : QLatin1Char('+') + editedTag2.section(QLatin1Char('{'), 0, 0)), c.name, lostTag.section(QLatin1Char('}'), 1)),
                              QStringLiteral("%1 %2: the unrelated sibling %3 is lost: %4").arg(del ? QStringLiteral("without") : QStringLiteral("with a second"), showPath(path) + (path2.isEmpty() ? QString() : QStringLiteral(" and ") + showPath(path2)), w.left(200), QString::fromUtf8(out.left(300))),
                              caseJson(QStringLiteral("c01"), seedIdx, c.name, QStringLiteral("%1:%2").arg(del ? QStringLiteral("delete") : QStringLiteral("dup"), showPath(path)), domToBytes(m)));
                break;
            }
        }
    }

    // object level: typed integer fields over their whole range
    void typedFields()
    {
        auto check = [&](const QString &what, qint64 v, qint64 got, bool present) {
            ++ctx.evaluations;
            ++ctx.nontrivial;
            if (!present || got != v) {
                ctx.violation(QStringLiteral("C01/typed-field-not-round-tripped:") + what, QStringLiteral("%1 = %2 comes back as %3").arg(what).arg(v).arg(present ? QString::number(got) : QStringLiteral("(rejected/absent)")),
                              QJsonObject { { QStringLiteral("engine"), QStringLiteral("c01-typed") }, { QStringLiteral("field"), what }, { QStringLiteral("value"), double(v) } });
            }
        };
        for (int v = 0; v <= 255; ++v) {
            {
                const auto r = parseInt<quint8>(QString::number(v));
                check(QStringLiteral("parseInt<quint8>"), v, r.value_or(0), r.has_value());
            }
            {
                QXmppJinglePayloadType p;
                p.setId(quint8(v));
                p.setName(QStringLiteral("opus"));
                p.setChannels(quint8(v));
                const auto xml = writeXml([&](QXmlStreamWriter *w) { p.toXml(w); });
                QDomDocument d;
                QXmppJinglePayloadType q;
                q.parse(parseDoc(xml, &d, true));
                if (v <= 127) {
                    check(QStringLiteral("QXmppJinglePayloadType.id"), v, q.id(), true);
                }
                check(QStringLiteral("QXmppJinglePayloadType.channels"), v == 0 ? 1 : v, q.channels(), true);
            }
        }
        for (int v = -128; v <= 127; ++v) {
            const auto r = parseInt<qint8>(QString::number(v));
            check(QStringLiteral("parseInt<qint8>"), v, r.value_or(0), r.has_value());
        }
        for (int v = 0; v <= 65535; ++v) {
            const auto r = parseInt<quint16>(QString::number(v));
            check(QStringLiteral("parseInt<quint16>"), v, r.value_or(0), r.has_value());
            if (v % 257 == 0 || v > 65500 || v < 40) {
                QXmppIbbDataIq iq;
                iq.setSequence(quint16(v));
                iq.setSid(QStringLiteral("s"));
                const auto xml = writeXml([&](QXmlStreamWriter *w) { iq.toXml(w); });
                QDomDocument d;
                QXmppIbbDataIq q;
                q.parse(parseDoc(xml, &d, true));
                check(QStringLiteral("QXmppIbbDataIq.sequence"), v, q.sequence(), true);
            }
        }
        for (int v = -32768; v <= 32767; ++v) {
            const auto r = parseInt<qint16>(QString::number(v));
            check(QStringLiteral("parseInt<qint16>"), v, r.value_or(0), r.has_value());
        }
        for (qint64 v : { qint64(0), qint64(1), qint64(2147483647), qint64(-2147483647) - 1, qint64(-1) }) {
            const auto r = parseInt<qint32>(QString::number(v));
            check(QStringLiteral("parseInt<qint32>"), v, r.value_or(0), r.has_value());
        }
        for (quint64 v : { quint64(0), quint64(1), quint64(4294967295u) }) {
            const auto r = parseInt<quint32>(QString::number(v));
            check(QStringLiteral("parseInt<quint32>"), qint64(v), r.value_or(0), r.has_value());
            SmAck ack { quint32(v) };
            const auto xml = writeXml([&](QXmlStreamWriter *w) { ack.toXml(w); });
            QDomDocument d;
            const auto back = SmAck::fromDom(parseDoc(xml, &d, false));
            check(QStringLiteral("SmAck.h"), qint64(v), back ? qint64(back->seqNo) : -1, back.has_value());
        }
        for (qint64 v : { std::numeric_limits<qint64>::min(), std::numeric_limits<qint64>::max(), qint64(0) }) {
            const auto r = parseInt<int64_t>(QString::number(v));
            check(QStringLiteral("parseInt<int64_t>"), v, r.value_or(0), r.has_value());
        }
        // values just outside each range must be rejected (no silent wrap)
        auto reject = [&](const QString &what, bool accepted, const QString &v) {
            ++ctx.evaluations;
            if (accepted) {
                ctx.violation(QStringLiteral("C01/out-of-range-accepted:") + what, QStringLiteral("%1 accepts %2").arg(what, v), QJsonObject { { QStringLiteral("engine"), QStringLiteral("c01-typed") }, { QStringLiteral("field"), what } });
            }
        };
        reject(QStringLiteral("parseInt<quint8>"), parseInt<quint8>(QStringLiteral("256")).has_value(), QStringLiteral("256"));
        reject(QStringLiteral("parseInt<quint8>"), parseInt<quint8>(QStringLiteral("-1")).has_value(), QStringLiteral("-1"));
        reject(QStringLiteral("parseInt<qint8>"), parseInt<qint8>(QStringLiteral("128")).has_value(), QStringLiteral("128"));
        reject(QStringLiteral("parseInt<qint8>"), parseInt<qint8>(QStringLiteral("-129")).has_value(), QStringLiteral("-129"));
        reject(QStringLiteral("parseInt<quint16>"), parseInt<quint16>(QStringLiteral("65536")).has_value(), QStringLiteral("65536"));
        reject(QStringLiteral("parseInt<qint16>"), parseInt<qint16>(QStringLiteral("32768")).has_value(), QStringLiteral("32768"));
        reject(QStringLiteral("parseInt<quint32>"), parseInt<quint32>(QStringLiteral("4294967296")).has_value(), QStringLiteral("4294967296"));
        reject(QStringLiteral("parseInt<qint32>"), parseInt<qint32>(QStringLiteral("2147483648")).has_value(), QStringLiteral("2147483648"));
        integerFields();
        dateTimeFields();
        ctx.count(QStringLiteral("typed_field_checks"));
    }

    // ---- object engine for integer-typed fields: set through the public setter, serialise, parse, read through the getter.
    template<typename T>
    static std::vector<T> intAlphabet(__int128 lo, __int128 hi)
    {
        lo = std::max<__int128>(lo, std::numeric_limits<T>::min());
        hi = std::min<__int128>(hi, std::numeric_limits<T>::max());
        std::vector<T> out;
        if (hi - lo < 70000) {
            for (__int128 v = lo; v <= hi; ++v) {
                out.push_back(T(v));
            }
            return out;
        }
        const __int128 one = 1;
        std::vector<__int128> cand = { lo, lo + 1, -32769, -32768, -129, -128, -2, -1, 0, 1, 2, 9, 10, 11, 127, 128, 255, 256, 32767, 32768, 65535, 65536, (one << 31) - 1, one << 31,
                                       (one << 32) - 1, one << 32, (one << 63) - 1, one << 63, hi - 1, hi };
        std::sort(cand.begin(), cand.end());
        cand.erase(std::unique(cand.begin(), cand.end()), cand.end());
        for (auto v : cand) {
            if (v >= lo && v <= hi) {
                out.push_back(T(v));
            }
        }
        return out;
    }
    static QString num(__int128 v)
    {
        return v < 0 ? QLatin1Char('-') + QString::number(quint64(-v)) : QString::number(quint64(v));
    }

    // make(v) -> serialised document ; back(root element) -> value read from the re-parsed object (nullopt = absent/rejected)
    template<typename T>
    void intField(const QString &name, __int128 lo, __int128 hi, const std::function<QByteArray(T)> &make, const std::function<std::optional<T>(const QDomElement &)> &back)
    {
        ctx.count(QStringLiteral("integer_fields"));
        for (T v : intAlphabet<T>(lo, hi)) {
            ++ctx.evaluations;
            ++ctx.nontrivial;
            const QByteArray xml = make(v);
            QDomDocument d;
            const auto root = parseDoc(xml, &d, true);
            std::optional<T> got;
            if (!root.isNull()) {
                got = back(root);
            }
            if (!got || *got != v) {
                ctx.violation(QStringLiteral("C01/typed-field-not-round-tripped:") + name,
                              QStringLiteral("%1 = %2 comes back as %3 (serialised: %4)").arg(name, num(v), got ? num(*got) : QStringLiteral("(rejected/absent)"), QString::fromUtf8(xml.left(300))),
                              QJsonObject { { QStringLiteral("engine"), QStringLiteral("c01-typed") }, { QStringLiteral("field"), name }, { QStringLiteral("value"), num(v) } });
                break;
            }
        }
    }
    // the common case: Obj has toXml(writer) / parse(element)
    template<typename Obj, typename T, typename Set, typename Get>
    void field(const QString &name, __int128 lo, __int128 hi, Set set, Get get, std::function<void(Obj &)> prep = {})
    {
        intField<T>(
            name, lo, hi,
            [&](T v) {
                Obj o;
                if (prep) {
                    prep(o);
                }
                set(o, v);
                return writeXml([&](QXmlStreamWriter *w) { o.toXml(w); });
            },
            [&](const QDomElement &el) -> std::optional<T> {
                Obj q;
                q.parse(el);
                return get(q);
            });
    }

    // ---- date-time fields: set, serialise, parse, read back; with and without milliseconds, with time zone offsets
    template<typename Obj, typename Set, typename Get>
    void dtField(const QString &name, Set set, Get get, std::function<void(Obj &)> prep = {}, bool millisecondsKept = true)
    {
        ctx.count(QStringLiteral("datetime_fields"));
        const QList<QDateTime> values = {
            QDateTime(QDate(2020, 1, 1), QTime(0, 0, 0), Qt::UTC),
            QDateTime(QDate(2010, 6, 29), QTime(8, 23, 6, 123), Qt::UTC),
            QDateTime(QDate(1999, 12, 31), QTime(23, 59, 59, 999), Qt::UTC),
            QDateTime(QDate(2038, 1, 19), QTime(3, 14, 8, 1), Qt::UTC),
            QDateTime(QDate(2024, 2, 29), QTime(12, 0, 0, 500), Qt::OffsetFromUTC, 5 * 3600 + 1800),
            QDateTime(QDate(2024, 2, 29), QTime(0, 30, 0), Qt::OffsetFromUTC, -8 * 3600),
            QDateTime(QDate(1970, 1, 1), QTime(0, 0, 1), Qt::UTC),
        };
        for (const auto &v : values) {
            ++ctx.evaluations;
            ++ctx.nontrivial;
            Obj o;
            if (prep) {
                prep(o);
            }
            set(o, v);
            const QByteArray xml = writeXml([&](QXmlStreamWriter *w) { o.toXml(w); });
            QDomDocument d;
            const auto root = parseDoc(xml, &d, true);
            Obj q;
            if (!root.isNull()) {
                q.parse(root);
            }
            const QDateTime got = get(q);
            const qint64 want = millisecondsKept ? v.toMSecsSinceEpoch() : (v.toMSecsSinceEpoch() / 1000) * 1000;
            if (!got.isValid() || got.toMSecsSinceEpoch() != want) {
                ctx.violation(QStringLiteral("C01/typed-field-not-round-tripped:") + name,
                              QStringLiteral("%1 = %2 comes back as %3 (serialised: %4)").arg(name, v.toString(Qt::ISODateWithMs), got.isValid() ? got.toUTC().toString(Qt::ISODateWithMs) : QStringLiteral("(invalid/absent)"), QString::fromUtf8(xml.left(300))),
                              QJsonObject { { QStringLiteral("engine"), QStringLiteral("c01-typed") }, { QStringLiteral("field"), name }, { QStringLiteral("value"), v.toString(Qt::ISODateWithMs) } });
                break;
            }
        }
    }

    void dateTimeFields()
    {
        using M = QXmppMessage;
        dtField<M>(QStringLiteral("QXmppMessage.stamp"), [](M &o, const QDateTime &v) { o.setStamp(v); }, [](const M &o) { return o.stamp(); });
        using P = QXmppPresence;
        dtField<P>(QStringLiteral("QXmppPresence.lastUserInteraction"), [](P &o, const QDateTime &v) { o.setLastUserInteraction(v); }, [](const P &o) { return o.lastUserInteraction(); });
        using T = QXmppEntityTimeIq;
        dtField<T>(QStringLiteral("QXmppEntityTimeIq.utc"), [](T &o, const QDateTime &v) { o.setUtc(v); }, [](const T &o) { return o.utc(); }, [](T &o) { o.setType(QXmppIq::Result); });
        using F = QXmppFileMetadata;
        dtField<F>(QStringLiteral("QXmppFileMetadata.lastModified"), [](F &o, const QDateTime &v) { o.setLastModified(v); }, [](const F &o) { return o.lastModified().value_or(QDateTime()); });
        using E = QXmppExternalService;
        dtField<E>(QStringLiteral("QXmppExternalService.expires"), [](E &o, const QDateTime &v) { o.setExpires(v); }, [](const E &o) { return o.expires().value_or(QDateTime()); },
                   [](E &o) { o.setHost(QStringLiteral("h")); o.setType(QStringLiteral("turn")); });
        using S = QXmppStanza::Error;
        dtField<S>(QStringLiteral("QXmppStanza::Error.retryDate"), [](S &o, const QDateTime &v) { o.setFileTooLarge(false); o.setRetryDate(v); }, [](const S &o) { return o.retryDate(); },
                   [](S &o) { o.setType(QXmppStanza::Error::Wait); o.setCondition(QXmppStanza::Error::ResourceConstraint); });
    }

    void integerFields()
    {
        constexpr __int128 I32MAX = 2147483647, U32MAX = 4294967295u;
        const __int128 I64MAX = std::numeric_limits<qint64>::max(), U64MAX = std::numeric_limits<quint64>::max();
        using PT = QXmppJinglePayloadType;
        field<PT, unsigned char>(QStringLiteral("QXmppJinglePayloadType.id"), 0, 127, [](PT &o, unsigned char v) { o.setId(v); }, [](const PT &o) { return std::optional<unsigned char>(o.id()); });
        field<PT, unsigned char>(QStringLiteral("QXmppJinglePayloadType.channels"), 1, 255, [](PT &o, unsigned char v) { o.setChannels(v); }, [](const PT &o) { return std::optional<unsigned char>(o.channels()); });
        field<PT, unsigned int>(QStringLiteral("QXmppJinglePayloadType.clockrate"), 0, U32MAX, [](PT &o, unsigned int v) { o.setClockrate(v); }, [](const PT &o) { return std::optional<unsigned int>(o.clockrate()); });
        field<PT, unsigned int>(QStringLiteral("QXmppJinglePayloadType.maxptime"), 1, U32MAX, [](PT &o, unsigned int v) { o.setMaxptime(v); }, [](const PT &o) { return std::optional<unsigned int>(o.maxptime()); });
        field<PT, unsigned int>(QStringLiteral("QXmppJinglePayloadType.ptime"), 1, U32MAX, [](PT &o, unsigned int v) { o.setPtime(v); }, [](const PT &o) { return std::optional<unsigned int>(o.ptime()); });
        using CR = QXmppJingleRtpCryptoElement;
        field<CR, uint32_t>(QStringLiteral("QXmppJingleRtpCryptoElement.tag"), 0, U32MAX, [](CR &o, uint32_t v) { o.setTag(v); }, [](const CR &o) { return std::optional<uint32_t>(o.tag()); },
                            [](CR &o) { o.setCryptoSuite(QStringLiteral("AES_CM_128_HMAC_SHA1_80")); o.setKeyParams(QStringLiteral("inline:abc")); });
        using FI = QXmppJingleRtpFeedbackInterval;
        field<FI, uint64_t>(QStringLiteral("QXmppJingleRtpFeedbackInterval.value"), 0, U64MAX, [](FI &o, uint64_t v) { o.setValue(v); }, [](const FI &o) { return std::optional<uint64_t>(o.value()); });
        using HE = QXmppJingleRtpHeaderExtensionProperty;
        field<HE, uint32_t>(QStringLiteral("QXmppJingleRtpHeaderExtensionProperty.id"), 0, U32MAX, [](HE &o, uint32_t v) { o.setId(v); }, [](const HE &o) { return std::optional<uint32_t>(o.id()); },
                            [](HE &o) { o.setUri(QStringLiteral("urn:ietf:params:rtp-hdrext:toffset")); });
        using JD = QXmppJingleDescription;
        field<JD, quint32>(QStringLiteral("QXmppJingleDescription.ssrc"), 0, U32MAX, [](JD &o, quint32 v) { o.setSsrc(v); }, [](const JD &o) { return std::optional<quint32>(o.ssrc()); },
                           [](JD &o) { o.setType(QStringLiteral("urn:xmpp:jingle:apps:rtp:1")); o.setMedia(QStringLiteral("audio")); });
        using JC = QXmppJingleCandidate;
        auto prepC = [](JC &o) { o.setId(QStringLiteral("c1")); o.setHost(QHostAddress(QStringLiteral("192.0.2.1"))); o.setProtocol(QStringLiteral("udp")); o.setType(QXmppJingleCandidate::HostType); };
        field<JC, int>(QStringLiteral("QXmppJingleCandidate.component"), 0, I32MAX, [](JC &o, int v) { o.setComponent(v); }, [](const JC &o) { return std::optional<int>(o.component()); }, prepC);
        field<JC, int>(QStringLiteral("QXmppJingleCandidate.generation"), 0, I32MAX, [](JC &o, int v) { o.setGeneration(v); }, [](const JC &o) { return std::optional<int>(o.generation()); }, prepC);
        field<JC, int>(QStringLiteral("QXmppJingleCandidate.network"), 0, I32MAX, [](JC &o, int v) { o.setNetwork(v); }, [](const JC &o) { return std::optional<int>(o.network()); }, prepC);
        field<JC, quint16>(QStringLiteral("QXmppJingleCandidate.port"), 0, 65535, [](JC &o, quint16 v) { o.setPort(v); }, [](const JC &o) { return std::optional<quint16>(o.port()); }, prepC);
        field<JC, int>(QStringLiteral("QXmppJingleCandidate.priority"), 0, I32MAX, [](JC &o, int v) { o.setPriority(v); }, [](const JC &o) { return std::optional<int>(o.priority()); }, prepC);
        using PR = QXmppPresence;
        field<PR, int>(QStringLiteral("QXmppPresence.priority"), -128, 127, [](PR &o, int v) { o.setPriority(v); }, [](const PR &o) { return std::optional<int>(o.priority()); });
        using RQ = QXmppResultSetQuery;
        field<RQ, int>(QStringLiteral("QXmppResultSetQuery.max"), 0, I32MAX, [](RQ &o, int v) { o.setMax(v); }, [](const RQ &o) { return std::optional<int>(o.max()); });
        field<RQ, int>(QStringLiteral("QXmppResultSetQuery.index"), 0, I32MAX, [](RQ &o, int v) { o.setIndex(v); }, [](const RQ &o) { return std::optional<int>(o.index()); });
        using RR = QXmppResultSetReply;
        field<RR, int>(QStringLiteral("QXmppResultSetReply.count"), 0, I32MAX, [](RR &o, int v) { o.setCount(v); }, [](const RR &o) { return std::optional<int>(o.count()); });
        field<RR, int>(QStringLiteral("QXmppResultSetReply.index"), 0, I32MAX, [](RR &o, int v) { o.setIndex(v); }, [](const RR &o) { return std::optional<int>(o.index()); }, [](RR &o) { o.setFirst(QStringLiteral("a")); });
        using IO = QXmppIbbOpenIq;
        field<IO, long>(QStringLiteral("QXmppIbbOpenIq.blockSize"), 0, I64MAX, [](IO &o, long v) { o.setBlockSize(v); }, [](const IO &o) { return std::optional<long>(o.blockSize()); }, [](IO &o) { o.setSid(QStringLiteral("s")); });
        using ID = QXmppIbbDataIq;
        field<ID, quint16>(QStringLiteral("QXmppIbbDataIq.sequence"), 0, 65535, [](ID &o, quint16 v) { o.setSequence(v); }, [](const ID &o) { return std::optional<quint16>(o.sequence()); }, [](ID &o) { o.setSid(QStringLiteral("s")); });
        using UR = QXmppHttpUploadRequestIq;
        field<UR, qint64>(QStringLiteral("QXmppHttpUploadRequestIq.size"), 0, I64MAX, [](UR &o, qint64 v) { o.setSize(v); }, [](const UR &o) { return std::optional<qint64>(o.size()); }, [](UR &o) { o.setFileName(QStringLiteral("f")); });
        using RP = QXmppRpcResponseIq;
        // a fault code of 0 means "no fault": both half ranges
        field<RP, int>(QStringLiteral("QXmppRpcResponseIq.faultCode(+)"), 1, I32MAX, [](RP &o, int v) { o.setFaultCode(v); o.setFaultString(QStringLiteral("f")); }, [](const RP &o) { return std::optional<int>(o.faultCode()); }, [](RP &o) { o.setType(QXmppIq::Result); });
        field<RP, int>(QStringLiteral("QXmppRpcResponseIq.faultCode(-)"), -I32MAX - 1, -1, [](RP &o, int v) { o.setFaultCode(v); o.setFaultString(QStringLiteral("f")); }, [](const RP &o) { return std::optional<int>(o.faultCode()); }, [](RP &o) { o.setType(QXmppIq::Result); });
        using SE = QXmppStanza::Error;
        auto prepE = [](SE &o) { o.setType(QXmppStanza::Error::Cancel); o.setCondition(QXmppStanza::Error::FeatureNotImplemented); };
        field<SE, int>(QStringLiteral("QXmppStanza::Error.code"), 1, I32MAX, [](SE &o, int v) { o.setCode(v); }, [](const SE &o) { return std::optional<int>(o.code()); }, prepE);
        field<SE, qint64>(QStringLiteral("QXmppStanza::Error.maxFileSize"), 1, I64MAX, [](SE &o, qint64 v) { o.setFileTooLarge(true); o.setMaxFileSize(v); }, [](const SE &o) { return std::optional<qint64>(o.maxFileSize()); }, prepE);
        using ES = QXmppExternalService;
        field<ES, int>(QStringLiteral("QXmppExternalService.port"), 0, 65535, [](ES &o, int v) { o.setPort(v); }, [](const ES &o) { return o.port(); }, [](ES &o) { o.setHost(QStringLiteral("h")); o.setType(QStringLiteral("stun")); });
        using FM = QXmppFileMetadata;
        field<FM, uint32_t>(QStringLiteral("QXmppFileMetadata.height"), 0, U32MAX, [](FM &o, uint32_t v) { o.setHeight(v); }, [](const FM &o) { return o.height(); });
        field<FM, uint32_t>(QStringLiteral("QXmppFileMetadata.width"), 0, U32MAX, [](FM &o, uint32_t v) { o.setWidth(v); }, [](const FM &o) { return o.width(); });
        field<FM, uint32_t>(QStringLiteral("QXmppFileMetadata.length"), 0, U32MAX, [](FM &o, uint32_t v) { o.setLength(v); }, [](const FM &o) { return o.length(); });
        field<FM, uint64_t>(QStringLiteral("QXmppFileMetadata.size"), 0, U64MAX, [](FM &o, uint64_t v) { o.setSize(v); }, [](const FM &o) { return o.size(); });
        using TH = QXmppThumbnail;
        auto prepT = [](TH &o) { o.setUri(QStringLiteral("cid:sha1+ffd7c8d28e9c5e82afea41f97108c6b4@bob.xmpp.org")); };
        field<TH, uint32_t>(QStringLiteral("QXmppThumbnail.width"), 0, U32MAX, [](TH &o, uint32_t v) { o.setWidth(v); }, [](const TH &o) { return o.width(); }, prepT);
        field<TH, uint32_t>(QStringLiteral("QXmppThumbnail.height"), 0, U32MAX, [](TH &o, uint32_t v) { o.setHeight(v); }, [](const TH &o) { return o.height(); }, prepT);
        using TI = QXmppTuneItem;
        field<TI, quint16>(QStringLiteral("QXmppTuneItem.length"), 0, 65535, [](TI &o, quint16 v) { o.setLength(v); }, [](const TI &o) { return o.length(); }, [](TI &o) { o.setTitle(QStringLiteral("t")); });
        field<TI, quint8>(QStringLiteral("QXmppTuneItem.rating"), 1, 10, [](TI &o, quint8 v) { o.setRating(v); }, [](const TI &o) { return o.rating(); }, [](TI &o) { o.setTitle(QStringLiteral("t")); });
        // data-form backed option classes
        auto formField = [&](const QString &name, auto tag, __int128 lo, __int128 hi, auto set, auto get) {
            using Obj = typename decltype(tag)::Obj;
            using T = typename decltype(tag)::T;
            intField<T>(
                name, lo, hi,
                [&](T v) {
                    Obj o;
                    set(o, v);
                    const QXmppDataForm f = o.toDataForm();
                    return writeXml([&](QXmlStreamWriter *w) { f.toXml(w); });
                },
                [&](const QDomElement &el) -> std::optional<T> {
                    QXmppDataForm f;
                    f.parse(el);
                    const auto q = Obj::fromDataForm(f);
                    return q ? get(*q) : std::nullopt;
                });
        };
        struct NC { using Obj = QXmppPubSubNodeConfig; using T = quint32; };
        formField(QStringLiteral("QXmppPubSubNodeConfig.itemExpiry"), NC {}, 0, U32MAX, [](QXmppPubSubNodeConfig &o, quint32 v) { o.setItemExpiry(v); }, [](const QXmppPubSubNodeConfig &o) { return o.itemExpiry(); });
        formField(QStringLiteral("QXmppPubSubNodeConfig.maxPayloadSize"), NC {}, 0, U32MAX, [](QXmppPubSubNodeConfig &o, quint32 v) { o.setMaxPayloadSize(v); }, [](const QXmppPubSubNodeConfig &o) { return o.maxPayloadSize(); });
        formField(QStringLiteral("QXmppPubSubNodeConfig.childNodesMax"), NC {}, 0, U32MAX, [](QXmppPubSubNodeConfig &o, quint32 v) { o.setChildNodesMax(v); }, [](const QXmppPubSubNodeConfig &o) { return o.childNodesMax(); });
        struct SO { using Obj = QXmppPubSubSubscribeOptions; using T = quint32; };
        formField(QStringLiteral("QXmppPubSubSubscribeOptions.digestFrequencyMs"), SO {}, 0, U32MAX, [](QXmppPubSubSubscribeOptions &o, quint32 v) { o.setDigestFrequencyMs(v); }, [](const QXmppPubSubSubscribeOptions &o) { return o.digestFrequencyMs(); });
        // entity time: offsets representable in XEP-0082 (whole minutes)
        intField<int>(
            QStringLiteral("QXmppEntityTimeIq.tzo(minutes)"), -14 * 60, 14 * 60,
            [&](int v) {
                QXmppEntityTimeIq o;
                o.setType(QXmppIq::Result);
                o.setUtc(QDateTime(QDate(2020, 1, 1), QTime(0, 0), Qt::UTC));
                o.setTzo(v * 60);
                return writeXml([&](QXmlStreamWriter *w) { o.toXml(w); });
            },
            [&](const QDomElement &el) -> std::optional<int> {
                QXmppEntityTimeIq q;
                q.parse(el);
                return q.tzo() / 60;
            });
    }
};

// ----------------------------------------------------------------------------------------- C02 engine
struct C02 {
    EnumCtx &ctx;
    std::vector<Codec> reg;
    QMap<QString, QList<QByteArray>> childPool;   // parent signature -> distinct child elements seen in the corpus
    int nestDepth = 0;

    static QString sigOf(const QDomElement &e) { return e.tagName() + QLatin1Char('{') + e.namespaceURI() + QLatin1Char('}'); }

    void buildPool(const std::vector<Seed> &seeds)
    {
        QMap<QString, QSet<QString>> seen;
        for (const auto &s : seeds) {
            QDomDocument d;
            const auto root = parseDoc(s.xml, &d, needsWrap(s.xml));
            if (root.isNull()) {
                continue;
            }
            QList<QDomElement> els;
            collect(root, els, 0, 5);
            for (const auto &el : std::as_const(els)) {
                const QString ps = sigOf(el);
                for (auto c = el.firstChildElement(); !c.isNull(); c = c.nextSiblingElement()) {
                    const QString cs = sigOf(c);
                    if (!seen[ps].contains(cs) && childPool[ps].size() < 24) {
                        seen[ps].insert(cs);
                        childPool[ps].append(domToBytes(c));
                    }
                }
            }
        }
    }

    // one evaluation: returns a problem description or empty
    QString judge(const Codec &c, const QDomElement &m, QByteArray *o1out)
    {
        const QByteArray o1 = c.roundTrip(m);
        *o1out = o1;
        QDomDocument d1;
        const auto e1 = parseDoc(o1, &d1, true);
        if (e1.isNull()) {
            return o1.trimmed().isEmpty() ? QString() : QStringLiteral("output-not-well-formed");
        }
        const QByteArray o2 = c.roundTrip(e1);
        if (ctx.replay) {
            fprintf(stderr, "pass 2: %s\n", o2.left(2000).constData());
        }
        if (o2 == o1) {
            return {};
        }
        // "the same document" is decided on the namespace-aware infoset in stream context: attribute order and
        // redundant xmlns declarations are not part of it, sibling order and every value are
        QDomDocument d2;
        const auto e2 = parseDoc(o2, &d2, true);
        if (e2.isNull()) {
            return o2.trimmed().isEmpty() ? QStringLiteral("not-a-fixpoint") : QStringLiteral("output-not-well-formed");
        }
        if (canonXml(e2, false) != canonXml(e1, false)) {
            return QStringLiteral("not-a-fixpoint");
        }
        return {};
    }

    // all hostile mutants (k = 1) of one document
    // cheapOnly: the second edit of a k=2 mutant (delete / duplicate / drop or empty an attribute)
    QList<QPair<QString, QByteArray>> mutants(const QDomElement &root, bool thorough, bool cheapOnly = false)
    {
        QList<QPair<QString, QByteArray>> out;
        QList<QDomElement> els;
        collect(root, els, 0, 5);
        const QStringList attrValues = { QString(), QStringLiteral("-1"), QStringLiteral("999999999999999999999"), QStringLiteral("abc"), QStringLiteral("bogus"), QString(thorough ? 65536 : 4096, QLatin1Char('a')) };
        for (int i = 0; i < els.size(); ++i) {
            const QString path = pathOf(els[i], root);
            auto withCopy = [&](const QString &op, const std::function<bool(QDomDocument &, QDomElement)> &edit) {
                QDomDocument d;
                d.appendChild(d.importNode(root, true));
                auto el = findPath(d.documentElement(), path);
                if (el.isNull()) {
                    return;
                }
                if (edit(d, el)) {
                    out << qMakePair(op + QLatin1Char(':') + showPath(path), domToBytes(d.documentElement()));
                }
            };
            if (i > 0) {
                withCopy(QStringLiteral("delete"), [](QDomDocument &, QDomElement el) { el.parentNode().removeChild(el); return true; });
                withCopy(QStringLiteral("duplicate"), [](QDomDocument &, QDomElement el) { el.parentNode().insertAfter(el.cloneNode(true), el); return true; });
            }
            if (i > 0 && !cheapOnly) {
                withCopy(QStringLiteral("swap"), [](QDomDocument &, QDomElement el) {
                    auto n = el.nextSiblingElement();
                    if (n.isNull()) {
                        return false;
                    }
                    el.parentNode().insertAfter(el, n);
                    return true;
                });
                withCopy(QStringLiteral("move-under-sibling"), [](QDomDocument &, QDomElement el) {
                    auto n = el.nextSiblingElement();
                    if (n.isNull()) {
                        n = el.previousSiblingElement();
                    }
                    if (n.isNull()) {
                        return false;
                    }
                    n.appendChild(el);
                    return true;
                });
                withCopy(QStringLiteral("renamespace"), [](QDomDocument &, QDomElement el) { el.setAttribute(QStringLiteral("xmlns"), QStringLiteral("urn:x")); return true; });
                withCopy(QStringLiteral("empty-content"), [](QDomDocument &, QDomElement el) {
                    if (el.firstChild().isNull()) {
                        return false;
                    }
                    while (!el.firstChild().isNull()) {
                        el.removeChild(el.firstChild());
                    }
                    return true;
                });
                if (els[i].firstChildElement().isNull()) {
                    withCopy(QStringLiteral("text-bogus"), [](QDomDocument &d, QDomElement el) {
                        while (!el.firstChild().isNull()) {
                            el.removeChild(el.firstChild());
                        }
                        el.appendChild(d.createTextNode(QStringLiteral("bogus")));
                        return true;
                    });
                }
            }
            // grammar-aware insertion: children this kind of parent has elsewhere in the corpus
            const auto pool = cheapOnly ? QList<QByteArray>() : childPool.value(sigOf(els[i]));
            for (int p = 0; p < pool.size(); ++p) {
                withCopy(QStringLiteral("insert-pool-child-%1").arg(p), [&](QDomDocument &d, QDomElement el) {
                    QDomDocument cd;
                    if (!cd.setContent(pool[p], true)) {
                        return false;
                    }
                    el.appendChild(d.importNode(cd.documentElement(), true));
                    return true;
                });
            }
            const auto attrs = els[i].attributes();
            for (int a = 0; a < attrs.count(); ++a) {
                const auto name = attrs.item(a).toAttr().name();
                if (name == QLatin1String("xmlns") || name.startsWith(QLatin1String("xmlns:"))) {
                    continue;
                }
                withCopy(QStringLiteral("drop-attr-") + name, [&](QDomDocument &, QDomElement el) { el.removeAttribute(name); return true; });
                for (const auto &v : attrValues) {
                    if (cheapOnly && !v.isEmpty()) {
                        continue;
                    }
                    withCopy(QStringLiteral("attr-%1=%2").arg(name, v.left(12)), [&](QDomDocument &, QDomElement el) { el.setAttribute(name, v); return true; });
                }
            }
        }
        // deep nesting
        if (nestDepth >= 0 && !cheapOnly) {
            const int depth = nestDepth > 0 ? nestDepth : (thorough ? 1024 : 256);
            QByteArray inner = domToBytes(root);
            QByteArray open, close;
            for (int i = 0; i < depth; ++i) {
                open += "<" + root.tagName().toUtf8() + " xmlns='" + root.namespaceURI().toUtf8() + "'>";
                close += "</" + root.tagName().toUtf8() + ">";
            }
            out << qMakePair(QStringLiteral("nest-%1").arg(depth), open + inner + close);
        }
        return out;
    }
};


// ----------------------------------------------------------------------------------------- C02, connected client
// A real QXmppClient with every bundled manager, logged in over loopback TCP; hostile elements arrive as stream elements.
struct ClientSession {
    int worker;
    std::unique_ptr<ClientRig> rig;
    int sessions = 0;

    bool open()
    {
        rig.reset();
        rig = std::make_unique<ClientRig>(worker, true);
        for (int i = NDEFAULT; i < int(factories().size()); ++i) {
            rig->client->addExtension(factories()[size_t(i)].make(rig->client.get()));
        }
        LoginOptions lo;
        lo.offerSm = false;
        ++sessions;
        if (!rig->listen() || !rig->connectClient(rig->baseConfig()) || !rig->login(lo)) {
            return false;
        }
        rig->sync();
        return rig->client->isConnected();
    }

    bool usable() const
    {
        return rig && rig->error.isEmpty() && rig->client->isConnected() && rig->csock()->state() == QAbstractSocket::ConnectedState &&
            rig->csock()->mode() == QSslSocket::UnencryptedMode && rig->server.peer() && rig->server.peer()->state() == QAbstractSocket::ConnectedState;
    }

    // returns a problem description or empty
    QString inject(const QByteArray &element, QByteArray *written)
    {
        if (rig && !usable() && qEnvironmentVariableIsSet("VERIF_DEBUG")) {
            fprintf(stderr, "session lost: err=%s connected=%d cstate=%d mode=%d peer=%d events=%s\n", qPrintable(rig->error), rig->client->isConnected(), int(rig->csock()->state()), int(rig->csock()->mode()),
                    rig->server.peer() ? int(rig->server.peer()->state()) : -1, qPrintable(rig->events.join(QLatin1Char(';')).right(200)));
        }
        if (!usable() && !open()) {
            return QStringLiteral("INTERNAL: cannot establish a session: ") + (rig ? rig->error : QString());
        }
        const auto items = rig->serverSend(element);
        for (const auto &it : items) {
            if (it.trimmed().isEmpty() || it.startsWith("<?xml") || it.startsWith("<stream:stream") || it.startsWith("</stream:stream")) {
                continue;
            }
            written->append(it);
            QDomDocument d;
            if (parseDoc(it, &d, true).isNull()) {
                return QStringLiteral("client-output-not-well-formed");
            }
        }
        return {};
    }
};

// the forms in which one hostile element reaches a connected client
QList<QPair<QString, QByteArray>> carriers(const QDomElement &el, const QByteArray &bytes, int n)
{
    QList<QPair<QString, QByteArray>> out;
    const QString tag = el.tagName();
    out << qMakePair(QStringLiteral("top-level"), bytes);
    if (el.namespaceURI() == QLatin1String("jabber:client") && (tag == QLatin1String("iq") || tag == QLatin1String("message") || tag == QLatin1String("presence"))) {
        return out;
    }
    const QByteArray id = "inj" + QByteArray::number(n);
    out << qMakePair(QStringLiteral("in-message"), "<message from='contact@example.net/r' to='user@example.org/r' id='" + id + "' type='chat'>" + bytes + "</message>");
    out << qMakePair(QStringLiteral("in-iq-set"), "<iq from='contact@example.net/r' to='user@example.org/r' id='" + id + "' type='set'>" + bytes + "</iq>");
    out << qMakePair(QStringLiteral("in-iq-result"), "<iq from='example.org' id='qxmpp" + QByteArray::number(1 + n % 6) + "' type='result'>" + bytes + "</iq>");
    out << qMakePair(QStringLiteral("in-presence"), "<presence from='contact@example.net/r' to='user@example.org/r'>" + bytes + "</presence>");
    return out;
}

}  // namespace

int main(int argc, char **argv)
{
    QCoreApplication app(argc, argv);
    EnumCtx ctx;
    ctx.parseArgs(argc, argv);
    ctx.maxViolationsPerKey = 1;
    QString engine = ctx.opts.value(QStringLiteral("engine"), QStringLiteral("c01"));
    int only = -1;
    QString onlyCodec, onlyOp;   // replay of a crash/hang of the stateless codec engines: only this evaluation is repeated
    const auto seeds = loadCorpus(ctx.opts.value(QStringLiteral("corpus"), QString::fromLocal8Bit(qgetenv("VERIF_CORPUS"))));
    const auto reg = registry();

    if (ctx.replay) {
        const auto &rc = ctx.replayCase;
        const QString eng = rc.value(QStringLiteral("engine")).toString();
        if (eng.endsWith(QLatin1String("-crash"))) {
            // re-run the whole seed in a forked child through the normal loop below
            only = rc.value(QStringLiteral("seed")).toInt();
            onlyCodec = rc.value(QStringLiteral("codec")).toString();
            onlyOp = rc.value(QStringLiteral("op")).toString();
            ctx.replay = false;
            goto mainLoop;
        }
        if (eng == QLatin1String("c01-typed")) {
            C01 c1 { ctx, reg, {} };
            c1.typedFields();
            return ctx.finish();
        }
        // c01: the whole per-seed check is repeated from the corpus seed (mutants are derived from the codec's own output);
        // c02: the stored mutant document itself is evaluated
        const int seedIndex = rc.value(QStringLiteral("seed")).toInt();
        const QByteArray doc = eng == QLatin1String("c01") && seedIndex < int(seeds.size()) ? seeds[size_t(seedIndex)].xml : rc.value(QStringLiteral("doc")).toString().toUtf8();
        const QString codecName = rc.value(QStringLiteral("codec")).toString();
        QDomDocument d;
        const auto el = parseDoc(doc, &d, eng == QLatin1String("c01") ? needsWrap(doc) : true);
        for (const auto &c : reg) {
            if (c.name != codecName) {
                continue;
            }
            if (eng == QLatin1String("c01")) {
                C01 c1 { ctx, reg, {} };
                // the replay document is a seed or a mutant of an output-form document: run the whole per-seed check on it
                c1.checkSeedCodec(rc.value(QStringLiteral("seed")).toInt(), c, el);
            } else {
                C02 c2 { ctx, reg, {}, 0 };
                QByteArray o1;
                ++ctx.evaluations;
                const auto problem = c2.judge(c, el, &o1);
                fprintf(stderr, "input : %s\noutput: %s\n", doc.left(2000).constData(), o1.left(2000).constData());
                if (!problem.isEmpty()) {
                    ctx.violation(rc.value(QStringLiteral("key")).toString(QStringLiteral("C02/") + problem + QLatin1Char(':') + c.name), problem, rc);
                }
            }
        }
        return ctx.finish();
    }

mainLoop:
    if (only >= 0) {
        engine = ctx.replayCase.value(QStringLiteral("engine")).toString().section(QLatin1Char('-'), 0, 0);
    }
    // Every seed is processed in a forked child: a crash, sanitizer abort or hang is attributed to (seed, codec, mutant) through a
    // progress marker written to a pipe, and the remaining seeds of the shard are still processed. The child prints its own
    // violation and summary lines (the coordinator adds up all summary lines of a shard).
    C02 c2 { ctx, reg, {}, 0 };
    QSet<int> nestSeeds;   // deep nesting exercises recursion per parser: once per distinct root element kind is enough
    if (engine.startsWith(QLatin1String("c02"))) {
        c2.buildPool(seeds);
        QSet<QString> roots;
        for (int si = 0; si < int(seeds.size()); ++si) {
            QDomDocument d;
            const auto root = parseDoc(seeds[size_t(si)].xml, &d, needsWrap(seeds[size_t(si)].xml));
            if (!root.isNull() && !roots.contains(C02::sigOf(root))) {
                roots.insert(C02::sigOf(root));
                nestSeeds.insert(si);
            }
        }
    }
    for (int si = 0; si < int(seeds.size()); ++si) {
        if (only >= 0 ? si != only : !ctx.mine()) {
            continue;
        }
        int pipefd[2];
        if (pipe(pipefd) != 0) {
            return 3;
        }
        fflush(stdout);
        const pid_t pid = fork();
        if (pid == 0) {
            close(pipefd[0]);
            alarm(ctx.thorough() ? 900 : 180);
            g_evalAlarm = ctx.thorough() ? 120 : 30;   // one evaluation (or one client injection incl. a re-login) never takes that long
            EnumCtx child;
            child.tier = ctx.tier;
            child.maxViolationsPerKey = 1;
            g_markerFd = pipefd[1];
            QDomDocument d;
            const auto root = parseDoc(seeds[size_t(si)].xml, &d, needsWrap(seeds[size_t(si)].xml));
            if (!root.isNull()) {
                if (engine == QLatin1String("c01")) {
                    C01 c1 { child, reg, {} };
                    for (const auto &c : reg) {
                        if (!c.name.endsWith(QLatin1Char('*')) && c.admit(root)) {
                            marker(si, c.name, QStringLiteral("c01"));
                            c1.checkSeedCodec(si, c, root);
                            if (si % 97 == 5) {
                                child.sample(QJsonObject { { QStringLiteral("codec"), c.name }, { QStringLiteral("seed"), QString::fromUtf8(seeds[size_t(si)].xml.left(200)) } }, 1);
                            }
                        }
                    }
                } else if (engine == QLatin1String("c02c")) {
                    C02 cc { child, reg, c2.childPool, nestSeeds.contains(si) || only >= 0 ? 0 : -1 };
                    auto ms = cc.mutants(root, ctx.thorough());
                    ms.prepend(qMakePair(QStringLiteral("seed"), domToBytes(root)));
                    ClientSession cs { ctx.shard };
                    int n = 0;
                    for (const auto &m : std::as_const(ms)) {
                        QDomDocument dm;
                        const auto el = parseDoc(m.second, &dm, true);
                        if (el.isNull()) {
                            continue;
                        }
                        const auto forms = carriers(el, domToBytes(el), n++);
                        for (const auto &f : forms) {
                            if (!ctx.thorough() && f.first != QLatin1String("top-level") && m.first.startsWith(QLatin1String("attr-")) && !m.first.contains(QLatin1String("=aaaaaaaaaaaa:")) && !m.first.contains(QLatin1String("=:"))) {
                                continue;   // quick: wrapped forms for structural mutants, dropped/empty/huge attributes only
                            }
                            marker(si, QStringLiteral("client"), f.first + QLatin1Char('/') + m.first);
                            ++child.evaluations;
                            ++child.nontrivial;
                            QByteArray written;
                            const auto problem = cs.inject(f.second, &written);
                            if (problem.startsWith(QLatin1String("INTERNAL"))) {
                                fprintf(stderr, "%s\n", qPrintable(problem));
                                _exit(4);
                            }
                            if (!written.isEmpty()) {
                                child.count(QStringLiteral("injections_answered"));
                            }
                            if (!problem.isEmpty()) {
                                const QString key = QStringLiteral("C02/%1:client:%2:%3").arg(problem, f.first, m.first.section(QLatin1Char(':'), 0, 0).section(QLatin1Char('='), 0, 0));
                                auto cj = caseJson(QStringLiteral("c02c-crash"), si, QStringLiteral("client"), f.first + QLatin1Char('/') + m.first, f.second);
                                cj[QStringLiteral("key")] = key;
                                child.violation(key, QStringLiteral("connected client, mutant '%1' of seed %2 as %3: %4; client wrote: %5").arg(m.first).arg(si).arg(f.first, problem, QString::fromUtf8(written.left(300))), cj);
                            }
                        }
                    }
                    child.count(QStringLiteral("client_sessions"), cs.sessions);
                    cs.rig.reset();
                } else {
                    C02 cc { child, reg, c2.childPool, nestSeeds.contains(si) || only >= 0 ? 0 : -1 };
                    if (nestSeeds.contains(si)) {
                        child.count(QStringLiteral("deep_nesting_cases"));
                    }
                    auto ms = cc.mutants(root, ctx.thorough());
                    ms.prepend(qMakePair(QStringLiteral("seed"), domToBytes(root)));
                    if (ctx.thorough()) {
                        // k = 2: a second cheap edit (delete / duplicate / drop or empty an attribute) on top of every structural first edit
                        const int cap = 2500;
                        QSet<QByteArray> seen;
                        for (const auto &m : std::as_const(ms)) {
                            seen.insert(m.second);
                        }
                        const int n1 = ms.size();
                        int added = 0;
                        for (int i = 1; i < n1 && added < cap; ++i) {
                            const QString op1 = ms[i].first.section(QLatin1Char(':'), 0, 0);
                            if (op1.startsWith(QLatin1String("nest")) || (op1.startsWith(QLatin1String("attr-")) && !op1.endsWith(QLatin1Char('=')))) {
                                continue;
                            }
                            QDomDocument d1;
                            const auto e1 = parseDoc(ms[i].second, &d1, true);
                            if (e1.isNull()) {
                                continue;
                            }
                            const auto second = cc.mutants(e1, false, true);
                            for (const auto &m2 : second) {
                                if (added >= cap) {
                                    break;
                                }
                                if (!seen.contains(m2.second)) {
                                    seen.insert(m2.second);
                                    ms << qMakePair(ms[i].first + QStringLiteral(" ; ") + m2.first, m2.second);
                                    ++added;
                                }
                            }
                        }
                        child.count(QStringLiteral("k2_mutants"), added);
                        if (added >= cap) {
                            child.count(QStringLiteral("k2_capped_seeds"));
                        }
                    }
                    for (const auto &m : std::as_const(ms)) {
                        QDomDocument dm;
                        const auto el = parseDoc(m.second, &dm, true);
                        if (el.isNull()) {
                            continue;
                        }
                        for (const auto &c : reg) {
                            if (!c.admit(el)) {
                                continue;
                            }
                            if (!onlyOp.isEmpty() && (c.name != onlyCodec || m.first != onlyOp)) {
                                continue;
                            }
                            marker(si, c.name, m.first);
                            ++child.evaluations;
                            if (m.first != QLatin1String("seed")) {
                                ++child.nontrivial;
                            }
                            QByteArray o1;
                            const auto problem = cc.judge(c, el, &o1);
                            if (!problem.isEmpty()) {
                                QString cname = c.name;
                                cname.remove(QLatin1Char('*'));
                                const QString key = QStringLiteral("C02/%1:%2:%3").arg(problem, cname, m.first.section(QLatin1Char(':'), 0, 0).section(QLatin1Char('='), 0, 0));
                                auto cj = caseJson(QStringLiteral("c02"), si, c.name, m.first, m.second);
                                cj[QStringLiteral("key")] = key;
                                child.violation(key, QStringLiteral("codec %1 on mutant '%2' of seed %3: %4; output: %5").arg(c.name, m.first).arg(si).arg(problem, QString::fromUtf8(o1.left(300))), cj);
                            }
                        }
                    }
                    if (si % 97 == 5) {
                        child.sample(QJsonObject { { QStringLiteral("seed"), QString::fromUtf8(seeds[size_t(si)].xml.left(160)) }, { QStringLiteral("mutants"), ms.size() } }, 1);
                    }
                }
            }
            child.count(QStringLiteral("seeds_processed"));
            child.finish();
            fflush(stdout);
            _exit(0);
        }
        close(pipefd[1]);
        QByteArray all;
        char buf[65536];
        ssize_t n;
        while ((n = read(pipefd[0], buf, sizeof buf)) > 0) {
            all.append(buf, int(n));
            if (all.size() > 1 << 20) {
                all = all.right(4096);   // only the last marker matters
            }
        }
        close(pipefd[0]);
        int status = 0;
        waitpid(pid, &status, 0);
        if (!(WIFEXITED(status) && WEXITSTATUS(status) == 0)) {
            const auto lines = all.split('\n');
            const QByteArray lastMarker = lines.size() >= 2 ? lines[lines.size() - 2] : QByteArray();
            const auto parts = lastMarker.split('\t');
            const bool hang = WIFSIGNALED(status) && WTERMSIG(status) == SIGALRM;
            QString cname = QString::fromUtf8(parts.value(1));
            cname.remove(QLatin1Char('*'));
            const QString prop = engine == QLatin1String("c01") ? QStringLiteral("C01") : QStringLiteral("C02");
            ctx.violation(QStringLiteral("%1/%2:%3:%4").arg(prop, hang ? QStringLiteral("hang") : QStringLiteral("crash-or-sanitizer-report"), cname, QString::fromUtf8(parts.value(2)).section(QLatin1Char(':'), 0, 0).section(QLatin1Char('='), 0, 0)),
                          QStringLiteral("child for seed %1 died (wait status %2) while codec %3 processed '%4'").arg(si).arg(status).arg(QString::fromUtf8(parts.value(1)), QString::fromUtf8(parts.value(2))),
                          QJsonObject { { QStringLiteral("engine"), engine + QStringLiteral("-crash") }, { QStringLiteral("seed"), si }, { QStringLiteral("codec"), QString::fromUtf8(parts.value(1)) }, { QStringLiteral("op"), QString::fromUtf8(parts.value(2)) } });
        }
    }
    if (engine == QLatin1String("c01") && ctx.shard == 0 && only < 0) {
        C01 c1 { ctx, reg, {} };
        c1.typedFields();
        ctx.count(QStringLiteral("codecs_in_registry"), qint64(reg.size()));
        ctx.count(QStringLiteral("seeds"), qint64(seeds.size()));
    }
    return ctx.finish();
}
