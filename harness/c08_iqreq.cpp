// C08 — every incoming IQ request is answered exactly once; responses are never answered.
// Complete product of type x payload x sender x id x extension set; one fresh session per injected IQ.
#include "managers.h"
#include "clientrig.h"
#include "enumctx.h"

using namespace verif;

namespace {


struct Payload {
    const char *name;
    QByteArray xml;
};

const std::vector<Payload> &basePayloads()
{
    static const std::vector<Payload> p = {
        { "none", "" },
        { "unknown", "<query xmlns='urn:verif:unknown'/>" },
        { "two-children", "<query xmlns='urn:verif:unknown'/><ping xmlns='urn:xmpp:ping'/>" },
        { "ping", "<ping xmlns='urn:xmpp:ping'/>" },
        { "disco-info", "<query xmlns='http://jabber.org/protocol/disco#info'/>" },
        { "disco-info-node", "<query xmlns='http://jabber.org/protocol/disco#info' node='urn:verif:nonexistent'/>" },
        { "disco-items", "<query xmlns='http://jabber.org/protocol/disco#items'/>" },
        { "version", "<query xmlns='jabber:iq:version'/>" },
        { "time", "<time xmlns='urn:xmpp:time'/>" },
        { "roster", "<query xmlns='jabber:iq:roster'><item jid='evil@example.net' name='x' subscription='both'/></query>" },
        { "roster-empty", "<query xmlns='jabber:iq:roster'/>" },
        { "vcard", "<vCard xmlns='vcard-temp'><FN>x</FN></vCard>" },
        { "bind", "<bind xmlns='urn:ietf:params:xml:ns:xmpp-bind'><resource>x</resource></bind>" },
        { "session", "<session xmlns='urn:ietf:params:xml:ns:xmpp-session'/>" },
        { "auth", "<query xmlns='jabber:iq:auth'><username>u</username></query>" },
        { "register", "<query xmlns='jabber:iq:register'/>" },
        { "private-bookmarks", "<query xmlns='jabber:iq:private'><storage xmlns='storage:bookmarks'/></query>" },
        { "muc-admin", "<query xmlns='http://jabber.org/protocol/muc#admin'><item affiliation='owner' jid='a@b'/></query>" },
        { "muc-owner", "<query xmlns='http://jabber.org/protocol/muc#owner'/>" },
        { "archive-list", "<list xmlns='urn:xmpp:archive' with='a@b'/>" },
        { "archive-chat", "<chat xmlns='urn:xmpp:archive' with='a@b' start='2020-01-01T00:00:00Z'/>" },
        { "archive-retrieve", "<retrieve xmlns='urn:xmpp:archive' with='a@b'/>" },
        { "archive-pref", "<pref xmlns='urn:xmpp:archive'/>" },
        { "mam-query", "<query xmlns='urn:xmpp:mam:2' queryid='q1'/>" },
        { "mam-fin", "<fin xmlns='urn:xmpp:mam:2' complete='true'><set xmlns='http://jabber.org/protocol/rsm'/></fin>" },
        { "mam-prefs", "<prefs xmlns='urn:xmpp:mam:2' default='roster'/>" },
        { "pubsub", "<pubsub xmlns='http://jabber.org/protocol/pubsub'><items node='n'/></pubsub>" },
        { "pubsub-owner", "<pubsub xmlns='http://jabber.org/protocol/pubsub#owner'><configure node='n'/></pubsub>" },
        { "jingle", "<jingle xmlns='urn:xmpp:jingle:1' action='session-initiate' sid='s1' initiator='a@b/c'/>" },
        { "jingle-terminate", "<jingle xmlns='urn:xmpp:jingle:1' action='session-terminate' sid='unknown'/>" },
        { "ibb-open", "<open xmlns='http://jabber.org/protocol/ibb' block-size='4096' sid='unknown'/>" },
        { "ibb-data", "<data xmlns='http://jabber.org/protocol/ibb' seq='0' sid='unknown'>YWJj</data>" },
        { "ibb-close", "<close xmlns='http://jabber.org/protocol/ibb' sid='unknown'/>" },
        { "bytestreams", "<query xmlns='http://jabber.org/protocol/bytestreams' sid='unknown'><streamhost jid='a@b/c' host='127.0.0.1' port='1'/></query>" },
        { "si", "<si xmlns='http://jabber.org/protocol/si' id='unknown' profile='http://jabber.org/protocol/si/profile/file-transfer'/>" },
        { "bob", "<data xmlns='urn:xmpp:bob' cid='sha1+8f35fef110ffc5df08d579a50083ff9308fb6242@bob.xmpp.org'/>" },
        { "http-upload-request", "<request xmlns='urn:xmpp:http:upload:0' filename='a.txt' size='3'/>" },
        { "http-upload-slot", "<slot xmlns='urn:xmpp:http:upload:0'><put url='https://x/a'/><get url='https://x/a'/></slot>" },
        { "push-enable", "<enable xmlns='urn:xmpp:push:0' jid='push.example.org' node='n'/>" },
        { "blocklist", "<blocklist xmlns='urn:xmpp:blocking'/>" },
        { "block", "<block xmlns='urn:xmpp:blocking'><item jid='evil@example.net'/></block>" },
        { "unblock", "<unblock xmlns='urn:xmpp:blocking'/>" },
        { "carbons-enable", "<enable xmlns='urn:xmpp:carbons:2'/>" },
        { "extdisco", "<services xmlns='urn:xmpp:extdisco:2'/>" },
        { "rpc", "<query xmlns='jabber:iq:rpc'><methodCall><methodName>m</methodName></methodCall></query>" },
        { "rpc-response", "<query xmlns='jabber:iq:rpc'><methodResponse><params/></methodResponse></query>" },
        { "mix-join", "<client-join xmlns='urn:xmpp:mix:pam:2' channel='c@mix.example.org'><join xmlns='urn:xmpp:mix:core:1'/></client-join>" },
        { "mix-leave", "<client-leave xmlns='urn:xmpp:mix:pam:2' channel='c@mix.example.org'><leave xmlns='urn:xmpp:mix:core:1'/></client-leave>" },
        { "mix-create", "<create xmlns='urn:xmpp:mix:core:1' channel='c'/>" },
        { "csi", "<active xmlns='urn:xmpp:csi:0'/>" },
        { "last", "<query xmlns='jabber:iq:last'/>" },
        { "stream-error-like", "<error xmlns='urn:ietf:params:xml:ns:xmpp-stanzas'/>" },
        { "error-child-only", "<error type='cancel'><item-not-found xmlns='urn:ietf:params:xml:ns:xmpp-stanzas'/></error>" },
    };
    return p;
}

// base payloads, plus every known payload as SECOND child behind an unknown element and as first child in front of one
// (several children: dispatch code that looks at "the first child" and code that looks for "a child" must agree)
int g_nBase = 0;
const std::vector<Payload> &payloads()
{
    static std::vector<Payload> all;
    static std::vector<QByteArray> names;
    if (all.empty()) {
        all = basePayloads();
        g_nBase = int(all.size());
        names.reserve(2 * all.size());
        for (int i = 3; i < g_nBase; ++i) {
            names.push_back(QByteArray("unknown+") + all[size_t(i)].name);
            all.push_back({ names.back().constData(), QByteArray("<other xmlns='urn:verif:unknown'/>") + all[size_t(i)].xml });
        }
        for (int i = 3; i < g_nBase; ++i) {
            names.push_back(QByteArray(all[size_t(i)].name) + "+unknown");
            all.push_back({ names.back().constData(), all[size_t(i)].xml + QByteArray("<other xmlns='urn:verif:unknown'/>") });
        }
    }
    return all;
}

const char *typeNames[] = { "get", "set", "result", "error", "(absent)", "bogus" };
struct FromC {
    const char *name;
    QByteArray jid;
};
const FromC froms[] = { { "server", "example.org" }, { "contact", "contact@example.net/res" }, { "own-bare", "user@example.org" }, { "absent", "" } };
const char *idNames[] = { "x1", "" };

struct Case {
    int extSet;   // -3 none, -2 defaults, -1 all, >=0 single factory index
    int type, payload, from, id;
};

QString extSetName(int s)
{
    if (s == -3) {
        return QStringLiteral("none");
    }
    if (s == -2) {
        return QStringLiteral("defaults");
    }
    if (s == -1) {
        return QStringLiteral("all");
    }
    return QString::fromLatin1(factories()[size_t(s)].name);
}

struct Outcome {
    int replies = 0;           // result/error IQs carrying the injected id
    QStringList replyTypes;
    QStringList replyTos;
    bool clientStillConnected = true;
    QString error;
};

QXmppClientExtension *g_dummy = nullptr;

Outcome runOne(int worker, const Case &c, bool verbose)
{
    Outcome out;
    ClientRig rig(worker);
    std::vector<int> which;
    if (c.extSet == -2) {
        for (int i = 0; i < NDEFAULT; ++i) {
            which.push_back(i);
        }
    } else if (c.extSet == -1) {
        for (int i = 0; i < int(factories().size()); ++i) {
            which.push_back(i);
        }
    } else if (c.extSet >= 0) {
        which.push_back(c.extSet);
    }
    for (int i : which) {
        rig.client->addExtension(factories()[size_t(i)].make(rig.client.get()));
    }
    LoginOptions lo;
    lo.offerSm = false;
    if (!rig.listen() || !rig.connectClient(rig.baseConfig()) || !rig.login(lo)) {
        out.error = QStringLiteral("login failed: ") + rig.error;
        return out;
    }
    // answer the client's own start-up requests with errors until it is quiet
    auto drain = [&](const QByteArray &watchId, bool count) {
        for (int round = 0; round < 8; ++round) {
            auto items = rig.sync();
            bool answered = false;
            for (const auto &it : items) {
                if (!it.startsWith("<iq")) {
                    continue;
                }
                QDomDocument d;
                const auto el = parseXml(QByteArray("<w xmlns='jabber:client'>") + it + "</w>", &d).firstChildElement();
                const auto type = el.attribute(QStringLiteral("type"));
                const auto id = el.attribute(QStringLiteral("id")).toUtf8();
                if (type == QLatin1String("get") || type == QLatin1String("set")) {
                    // a request of the client itself: refuse it so that whatever waits for it can go on
                    QByteArray reply = "<iq type='error' id='" + id + "'";
                    if (el.hasAttribute(QStringLiteral("to"))) {
                        reply += " from='" + el.attribute(QStringLiteral("to")).toUtf8() + "'";
                    }
                    reply += "><error type='cancel'><service-unavailable xmlns='urn:ietf:params:xml:ns:xmpp-stanzas'/></error></iq>";
                    rig.server.write(reply);
                    answered = true;
                } else if (count && (type == QLatin1String("result") || type == QLatin1String("error")) && id == watchId) {
                    ++out.replies;
                    out.replyTypes << type;
                    out.replyTos << (el.hasAttribute(QStringLiteral("to")) ? el.attribute(QStringLiteral("to")) : QStringLiteral("(absent)"));
                }
                if (verbose) {
                    fprintf(stderr, "  C>S %s\n", it.left(300).constData());
                }
            }
            if (!answered) {
                break;
            }
        }
    };
    drain({}, false);
    QByteArray iq = "<iq";
    if (c.type < 4) {
        iq += QByteArray(" type='") + typeNames[c.type] + "'";
    } else if (c.type == 5) {
        iq += " type='bogus'";
    }
    if (c.id == 0) {
        iq += " id='x1'";
    }
    if (froms[c.from].jid.size()) {
        iq += " from='" + froms[c.from].jid + "'";
    }
    iq += " to='user@example.org/r'>" + payloads()[size_t(c.payload)].xml + "</iq>";
    if (verbose) {
        fprintf(stderr, "  S>C %s\n", iq.constData());
    }
    rig.server.write(iq);
    drain(c.id == 0 ? QByteArray("x1") : QByteArray(), true);
    out.clientStillConnected = rig.client->isConnected();
    return out;
}

QJsonObject caseJson(const Case &c)
{
    return { { QStringLiteral("ext"), c.extSet }, { QStringLiteral("extName"), extSetName(c.extSet) }, { QStringLiteral("type"), c.type }, { QStringLiteral("typeName"), QString::fromLatin1(typeNames[c.type]) },
             { QStringLiteral("payload"), c.payload }, { QStringLiteral("payloadName"), QString::fromLatin1(payloads()[size_t(c.payload)].name) }, { QStringLiteral("from"), c.from },
             { QStringLiteral("fromName"), QString::fromLatin1(froms[c.from].name) }, { QStringLiteral("id"), c.id } };
}

// returns a problem description ("" = fine)
QString judge(const Case &c, const Outcome &o)
{
    if (!o.error.isEmpty()) {
        return QStringLiteral("harness:") + o.error;
    }
    if (c.type <= 1) {
        if (o.replies == 0) {
            return QStringLiteral("no-reply");
        }
        if (o.replies > 1) {
            return QStringLiteral("%1-replies").arg(o.replies);
        }
        const QString to = o.replyTos.first();
        const QString from = QString::fromLatin1(froms[c.from].jid);
        const bool toOk = (to == from) || (to == QLatin1String("(absent)") && (from.isEmpty() || from == QLatin1String("user@example.org") || from == QLatin1String("example.org")));
        if (!toOk) {
            return QStringLiteral("reply-to-wrong-address");
        }
        return {};
    }
    if (c.type == 2 || c.type == 3) {
        if (o.replies > 0) {
            return QStringLiteral("response-was-answered");
        }
    }
    return {};
}

}  // namespace

int main(int argc, char **argv)
{
    QCoreApplication app(argc, argv);
    EnumCtx ctx;
    ctx.parseArgs(argc, argv);
    ctx.maxViolationsPerKey = 1;

    auto evalCase = [&](const Case &c) {
        Outcome o = runOne(ctx.shard, c, ctx.verbose);
        if (o.error.startsWith(QLatin1String("login failed"))) {
            o = runOne(ctx.shard, c, ctx.verbose);
            if (!o.error.isEmpty()) {
                fprintf(stderr, "INTERNAL: %s\n", qPrintable(o.error));
                exit(3);
            }
        }
        ++ctx.evaluations;
        if (c.type <= 3 && c.payload > 2) {
            ++ctx.nontrivial;
        }
        QString problem = judge(c, o);
        ctx.count(QStringLiteral("replies=%1").arg(o.replies));
        ctx.outcome(QStringLiteral("%1/%2/%3").arg(o.replies).arg(o.replyTypes.join(QLatin1Char(','))).arg(c.type));
        if (!problem.isEmpty()) {
            // attribute the problem to a single manager where possible
            QString culprit = extSetName(c.extSet);
            if (c.extSet == -1 || c.extSet == -2) {
                const int n = c.extSet == -2 ? NDEFAULT : int(factories().size());
                for (int i = 0; i < n; ++i) {
                    Case single = c;
                    single.extSet = i;
                    if (judge(single, runOne(ctx.shard, single, false)) == problem) {
                        culprit = extSetName(i);
                        break;
                    }
                }
            }
            const QString key = QStringLiteral("C08/%1:%2:%3:from=%4:%5")
                                    .arg(culprit, QString::fromLatin1(payloads()[size_t(c.payload)].name), QString::fromLatin1(typeNames[c.type]), QString::fromLatin1(froms[c.from].name), problem);
            ctx.violation(key, QStringLiteral("extensions=%1 iq type=%2 payload=%3 from=%4 id='%5': %6 (replies: %7 to %8)")
                                   .arg(extSetName(c.extSet), QString::fromLatin1(typeNames[c.type]), QString::fromLatin1(payloads()[size_t(c.payload)].name), QString::fromLatin1(froms[c.from].name),
                                        QString::fromLatin1(idNames[c.id]), problem, o.replyTypes.join(QLatin1Char(',')), o.replyTos.join(QLatin1Char(','))),
                          caseJson(c));
        }
    };

    if (ctx.replay) {
        Case c { ctx.replayCase.value(QStringLiteral("ext")).toInt(), ctx.replayCase.value(QStringLiteral("type")).toInt(), ctx.replayCase.value(QStringLiteral("payload")).toInt(),
                 ctx.replayCase.value(QStringLiteral("from")).toInt(), ctx.replayCase.value(QStringLiteral("id")).toInt() };
        evalCase(c);
        return ctx.finish();
    }
    std::vector<int> sets = { -3, -2, -1 };
    if (ctx.thorough()) {
        for (int i = 0; i < int(factories().size()); ++i) {
            sets.push_back(i);
        }
    }
    if (ctx.shard == 0) {
        ctx.count(QStringLiteral("extension_sets"), qint64(sets.size()));
        ctx.count(QStringLiteral("payloads"), qint64(payloads().size()));
    }
    for (int s : sets) {
        for (int t = 0; t < 6; ++t) {
            for (int p = 0; p < int(payloads().size()); ++p) {
                for (int f = 0; f < 4; ++f) {
                    for (int id = 0; id < 2; ++id) {
                        if (id == 1 && !(ctx.thorough() || s == -2 || s == -1)) {
                            continue;   // quick: empty id with the default extension set and with all managers
                        }
                        if (p >= g_nBase && !ctx.thorough() && (t > 1 || f != 1 || id != 0 || s == -3)) {
                            continue;   // quick: multi-child payloads only as get/set from a contact, with extensions installed
                        }
                        if (ctx.mine()) {
                            Case c { s, t, p, f, id };
                            evalCase(c);
                            if (s == -1 && t == 0 && f == 1 && id == 0 && ctx.samples.size() < 5 && p % 9 == 3) {
                                ctx.sample(caseJson(c));
                            }
                        }
                    }
                }
            }
        }
    }
    return ctx.finish();
}
