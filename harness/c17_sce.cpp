// C17 — splitting a message for end-to-end encryption: nothing sensitive in the public part, exact partition,
// recovery by parse(public) + parseExtensions(sensitive). Exhaustive over all subsets of <= k known extensions.
#include "QXmppMessage.h"
#include "enumctx.h"

#include <QBuffer>

using namespace verif;

struct Ext {
    QString name;
    QString group;      // at most one entry per group in a combination
    bool publicPart;    // true: belongs to the public part, false: sensitive
    QString snippet;    // child element XML (may be empty when set by `post`)
    QStringList tokens; // distinctive values that must not leak when sensitive
    QString tag, ns;    // identity of the serialised child element
    std::function<void(QXmppMessage &)> post;
};

static std::vector<Ext> table()
{
    std::vector<Ext> t;
    auto pub = [&](const char *name, const char *group, const QString &snip, const char *tag, const char *ns, QStringList tokens = {}) {
        t.push_back({ QString::fromLatin1(name), QString::fromLatin1(group), true, snip, tokens, QString::fromLatin1(tag), QString::fromLatin1(ns), nullptr });
    };
    auto sen = [&](const char *name, const char *group, const QString &snip, const char *tag, const char *ns, QStringList tokens = {}) {
        t.push_back({ QString::fromLatin1(name), QString::fromLatin1(group), false, snip, tokens, QString::fromLatin1(tag), QString::fromLatin1(ns), nullptr });
    };
    // ---- public ----
    pub("carbon-private", "private", QStringLiteral("<private xmlns='urn:xmpp:carbons:2'/>"), "private", "urn:xmpp:carbons:2");
    pub("hint-no-store", "hint1", QStringLiteral("<no-store xmlns='urn:xmpp:hints'/>"), "no-store", "urn:xmpp:hints");
    pub("hint-no-copy", "hint2", QStringLiteral("<no-copy xmlns='urn:xmpp:hints'/>"), "no-copy", "urn:xmpp:hints");
    pub("hint-store", "hint3", QStringLiteral("<store xmlns='urn:xmpp:hints'/>"), "store", "urn:xmpp:hints");
    pub("hint-no-permanent-store", "hint4", QStringLiteral("<no-permanent-store xmlns='urn:xmpp:hints'/>"), "no-permanent-store", "urn:xmpp:hints");
    pub("stanza-id", "sid", QStringLiteral("<stanza-id xmlns='urn:xmpp:sid:0' id='PUBsid' by='PUBby@example.org'/>"), "stanza-id", "urn:xmpp:sid:0");
    pub("origin-id", "oid", QStringLiteral("<origin-id xmlns='urn:xmpp:sid:0' id='PUBorigin'/>"), "origin-id", "urn:xmpp:sid:0");
    pub("mix-user", "mix", QStringLiteral("<mix xmlns='urn:xmpp:mix:core:1'><jid>PUBmix@example.org</jid><nick>PUBnick</nick></mix>"), "mix", "urn:xmpp:mix:core:1");
    pub("eme", "eme", QStringLiteral("<encryption xmlns='urn:xmpp:eme:0' namespace='urn:xmpp:otr:0' name='PUBeme'/>"), "encryption", "urn:xmpp:eme:0");
    pub("fallback-marker", "fb", QStringLiteral("<fallback xmlns='urn:xmpp:fallback:0' for='urn:xmpp:reply:0'><body start='0' end='3'/></fallback>"), "fallback", "urn:xmpp:fallback:0");
    pub("addresses", "addr", QStringLiteral("<addresses xmlns='http://jabber.org/protocol/address'><address type='to' jid='PUBaddr@example.org' desc='PUBdesc'/></addresses>"),
        "addresses", "http://jabber.org/protocol/address");
    t.push_back({ QStringLiteral("e2ee-fallback-body"), QStringLiteral("fbbody"), true, QString(), {}, QStringLiteral("body"), QStringLiteral("jabber:client"),
                  [](QXmppMessage &m) { m.setE2eeFallbackBody(QStringLiteral("PUBfallbackbody: this message is encrypted")); } });
    // ---- sensitive ----
    sen("body", "body", QStringLiteral("<body>SECRETbody &lt;x&gt;</body>"), "body", "jabber:client", { QStringLiteral("SECRETbody") });
    sen("subject", "subject", QStringLiteral("<subject>SECRETsubject</subject>"), "subject", "jabber:client", { QStringLiteral("SECRETsubject") });
    sen("thread", "thread", QStringLiteral("<thread parent='SECRETparent'>SECRETthread</thread>"), "thread", "jabber:client", { QStringLiteral("SECRETthread"), QStringLiteral("SECRETparent") });
    sen("oob", "oob", QStringLiteral("<x xmlns='jabber:x:oob'><url>https://SECREToob.example/f</url><desc>SECRETdesc</desc></x>"), "x", "jabber:x:oob", { QStringLiteral("SECREToob"), QStringLiteral("SECRETdesc") });
    sen("xhtml", "xhtml", QStringLiteral("<html xmlns='http://jabber.org/protocol/xhtml-im'><body xmlns='http://www.w3.org/1999/xhtml'><p>SECRETxhtml</p></body></html>"), "html",
        "http://jabber.org/protocol/xhtml-im", { QStringLiteral("SECRETxhtml") });
    sen("chat-state-composing", "state", QStringLiteral("<composing xmlns='http://jabber.org/protocol/chatstates'/>"), "composing", "http://jabber.org/protocol/chatstates");
    sen("chat-state-paused", "state", QStringLiteral("<paused xmlns='http://jabber.org/protocol/chatstates'/>"), "paused", "http://jabber.org/protocol/chatstates");
    sen("delay", "stamp", QStringLiteral("<delay xmlns='urn:xmpp:delay' stamp='2020-01-02T03:04:05Z'/>"), "delay", "urn:xmpp:delay", { QStringLiteral("2020-01-02") });
    sen("legacy-delay", "stamp", QStringLiteral("<x xmlns='jabber:x:delay' stamp='20200102T03:04:05'/>"), "x", "jabber:x:delay", { QStringLiteral("20200102") });
    sen("receipt-received", "receipt", QStringLiteral("<received xmlns='urn:xmpp:receipts' id='SECRETreceipt'/>"), "received", "urn:xmpp:receipts", { QStringLiteral("SECRETreceipt") });
    sen("receipt-request", "receipt", QStringLiteral("<request xmlns='urn:xmpp:receipts'/>"), "request", "urn:xmpp:receipts");
    sen("attention", "attention", QStringLiteral("<attention xmlns='urn:xmpp:attention:0'/>"), "attention", "urn:xmpp:attention:0");
    sen("muc-invitation", "mucinv", QStringLiteral("<x xmlns='jabber:x:conference' jid='SECRETroom@muc.example' password='SECRETpw' reason='SECRETreason'/>"), "x", "jabber:x:conference",
        { QStringLiteral("SECRETroom"), QStringLiteral("SECRETpw"), QStringLiteral("SECRETreason") });
    sen("bob", "bob", QStringLiteral("<data xmlns='urn:xmpp:bob' cid='sha1+5a4c38d44fc64805cbb2d92d8b208be13ff40c0f@bob.xmpp.org' max-age='86400' type='image/png'>U0VDUkVUYm9i</data>"), "data",
        "urn:xmpp:bob", { QStringLiteral("U0VDUkVUYm9i"), QStringLiteral("5a4c38d44fc6") });
    sen("replace", "replace", QStringLiteral("<replace xmlns='urn:xmpp:message-correct:0' id='SECRETreplace'/>"), "replace", "urn:xmpp:message-correct:0", { QStringLiteral("SECRETreplace") });
    sen("markable", "markable", QStringLiteral("<markable xmlns='urn:xmpp:chat-markers:0'/>"), "markable", "urn:xmpp:chat-markers:0");
    sen("marker-displayed", "marker", QStringLiteral("<displayed xmlns='urn:xmpp:chat-markers:0' id='SECRETmarked' thread='SECRETmthread'/>"), "displayed", "urn:xmpp:chat-markers:0",
        { QStringLiteral("SECRETmarked"), QStringLiteral("SECRETmthread") });
    sen("marker-received", "marker", QStringLiteral("<received xmlns='urn:xmpp:chat-markers:0' id='SECRETmarked2'/>"), "received", "urn:xmpp:chat-markers:0", { QStringLiteral("SECRETmarked2") });
    sen("jmi-propose", "jmi", QStringLiteral("<propose xmlns='urn:xmpp:jingle-message:0' id='SECRETjmi'><description xmlns='urn:xmpp:jingle:apps:rtp:1' media='audio'/></propose>"), "propose",
        "urn:xmpp:jingle-message:0", { QStringLiteral("SECRETjmi") });
    sen("attach-to", "attach", QStringLiteral("<attach-to xmlns='urn:xmpp:message-attaching:1' id='SECRETattach'/>"), "attach-to", "urn:xmpp:message-attaching:1", { QStringLiteral("SECRETattach") });
    sen("spoiler", "spoiler", QStringLiteral("<spoiler xmlns='urn:xmpp:spoiler:0'>SECRETspoiler</spoiler>"), "spoiler", "urn:xmpp:spoiler:0", { QStringLiteral("SECRETspoiler") });
    sen("mix-invitation", "mixinv",
        QStringLiteral("<invitation xmlns='urn:xmpp:mix:misc:0'><inviter>SECRETinviter@example.org</inviter><invitee>cat@example.org</invitee><channel>SECRETchannel@mix.example</channel><token>SECRETtoken</token></invitation>"),
        "invitation", "urn:xmpp:mix:misc:0", { QStringLiteral("SECRETinviter"), QStringLiteral("SECRETchannel"), QStringLiteral("SECRETtoken") });
    sen("trust-message", "tm",
        QStringLiteral("<trust-message xmlns='urn:xmpp:tm:1' usage='urn:xmpp:atm:1' encryption='urn:xmpp:omemo:2'><key-owner jid='SECRETowner@example.org'><trust>aFABnX7Q/rbTgjBySYzrT2FsYCVYb49mbca5yB734KQ=</trust><distrust>tCP1CI3pqSTVGzFYFyPYUMfMZ9Ck/msmfD0wH/VtJBM=</distrust></key-owner></trust-message>"),
        "trust-message", "urn:xmpp:tm:1", { QStringLiteral("SECRETowner"), QStringLiteral("aFABnX7Q") });
    sen("reaction", "reaction", QStringLiteral("<reactions xmlns='urn:xmpp:reactions:0' id='SECRETreactid'><reaction>\U0001F422</reaction><reaction>SECRETemoji</reaction></reactions>"), "reactions",
        "urn:xmpp:reactions:0", { QStringLiteral("SECRETreactid"), QStringLiteral("SECRETemoji") });
    sen("file-sharing", "sfs",
        QStringLiteral("<file-sharing xmlns='urn:xmpp:sfs:0' disposition='inline' id='SECRETsfsid'><file xmlns='urn:xmpp:file:metadata:0'><desc>SECRETfiledesc</desc><media-type>image/jpeg</media-type><name>SECRETname.jpg</name><size>3032449</size></file><sources><url-data xmlns='http://jabber.org/protocol/url-data' target='https://SECRETdownload.example/summit.jpg'/></sources></file-sharing>"),
        "file-sharing", "urn:xmpp:sfs:0", { QStringLiteral("SECRETsfsid"), QStringLiteral("SECRETfiledesc"), QStringLiteral("SECRETname"), QStringLiteral("SECRETdownload") });
    sen("file-sources", "sfsrc", QStringLiteral("<sources xmlns='urn:xmpp:sfs:0' id='SECRETsrcid'><url-data xmlns='http://jabber.org/protocol/url-data' target='https://SECRETsrc.example/photo1.jpg'/></sources>"),
        "sources", "urn:xmpp:sfs:0", { QStringLiteral("SECRETsrcid"), QStringLiteral("SECRETsrc.example") });
    sen("reply", "reply", QStringLiteral("<reply xmlns='urn:xmpp:reply:0' to='SECRETreplyto@example.com' id='SECRETreplyid'/>"), "reply", "urn:xmpp:reply:0", { QStringLiteral("SECRETreplyto"), QStringLiteral("SECRETreplyid") });
    sen("call-invite", "callinv", QStringLiteral("<invite xmlns='urn:xmpp:call-invites:0' video='true'><jingle sid='SECRETsid' jid='SECRETmixer@example.com/uuid'/><external uri='https://SECRETcall.example/uuid'/></invite>"),
        "invite", "urn:xmpp:call-invites:0", { QStringLiteral("SECRETsid"), QStringLiteral("SECRETmixer"), QStringLiteral("SECRETcall") });
    return t;
}

static QByteArray ser(const QXmppMessage &m, QXmpp::SceMode mode)
{
    return writeXml([&](QXmlStreamWriter *w) { m.toXml(w, mode); });
}

static QStringList childCanons(const QDomElement &parent)
{
    QStringList l;
    for (auto c = parent.firstChildElement(); !c.isNull(); c = c.nextSiblingElement()) {
        l << canonXml(c, true);
    }
    l.sort();
    return l;
}

static QDomElement parseWrapped(const QByteArray &xml, const char *wrapNs, QDomDocument *doc)
{
    const QByteArray wrapped = QByteArray("<wrap xmlns='") + wrapNs + "'>" + xml + "</wrap>";
    QString err;
    auto root = parseXml(wrapped, doc, &err);
    if (root.isNull()) {
        return {};
    }
    return root;
}

struct Checker {
    EnumCtx &ctx;
    std::vector<Ext> tab;

    QJsonObject caseJson(const std::vector<int> &idx) const
    {
        QJsonArray names;
        for (int i : idx) {
            names.append(tab[size_t(i)].name);
        }
        return { { QStringLiteral("exts"), toJsonArray(idx) }, { QStringLiteral("names"), names } };
    }

    QString keySuffix(const std::vector<int> &idx, const QString &culpritTag = {}) const
    {
        Q_UNUSED(idx)
        return culpritTag;
    }

    void check(const std::vector<int> &idx)
    {
        ++ctx.evaluations;
        if (idx.size() >= 2) {
            ++ctx.nontrivial;
        }
        QString xml = QStringLiteral("<message xmlns='jabber:client' id='PUBid' to='pubto@example.org' from='pubfrom@example.org/r' type='chat'>");
        for (int i : idx) {
            xml += tab[size_t(i)].snippet;
        }
        xml += QStringLiteral("</message>");
        QDomDocument srcDoc;
        QString err;
        auto el = parseXml(xml, &srcDoc, &err);
        if (el.isNull()) {
            fprintf(stderr, "INTERNAL: seed xml does not parse: %s\n", qPrintable(err));
            exit(3);
        }
        QXmppMessage m;
        m.parse(el, QXmpp::SceAll);
        for (int i : idx) {
            if (tab[size_t(i)].post) {
                tab[size_t(i)].post(m);
            }
        }
        const QByteArray all = ser(m, QXmpp::SceAll);
        const QByteArray pub = ser(m, QXmpp::ScePublic);
        const QByteArray sens = writeXml([&](QXmlStreamWriter *w) { m.serializeExtensions(w, QXmpp::SceSensitive, QStringLiteral("jabber:client")); });
        const auto cj = caseJson(idx);
        if (ctx.verbose) {
            fprintf(stderr, "ALL : %s\nPUB : %s\nSENS: %s\n", all.constData(), pub.constData(), sens.constData());
        }

        QDomDocument dAll, dPub, dSens;
        const auto rAll = parseWrapped(all, "jabber:client", &dAll);
        const auto rPub = parseWrapped(pub, "jabber:client", &dPub);
        const auto rSens = parseWrapped(sens, "urn:xmpp:sce:1", &dSens);
        if (rAll.isNull() || rPub.isNull() || rSens.isNull()) {
            ctx.violation(QStringLiteral("C17/output-not-well-formed"), QStringLiteral("a serialisation is not well-formed XML"), cj);
            return;
        }
        const auto mAll = rAll.firstChildElement(), mPub = rPub.firstChildElement();

        // vacuity guard: every chosen extension is really present in the combined serialisation
        for (int i : idx) {
            const auto &e = tab[size_t(i)];
            if (e.snippet.isEmpty()) {
                continue;
            }
            bool found = false;
            for (auto c = mAll.firstChildElement(); !c.isNull(); c = c.nextSiblingElement()) {
                if (c.tagName() == e.tag && c.namespaceURI() == e.ns) {
                    found = true;
                }
            }
            if (!found) {
                ctx.violation(QStringLiteral("C17/extension-lost-in-combined-mode:") + e.name, QStringLiteral("extension %1 is not serialised in SceAll mode").arg(e.name), cj);
            }
        }

        // (1) leak: no sensitive token, and only whitelisted element kinds, in the public part
        const QString pubText = QString::fromUtf8(pub);
        for (int i : idx) {
            const auto &e = tab[size_t(i)];
            if (e.publicPart) {
                continue;
            }
            for (const auto &tok : e.tokens) {
                if (pubText.contains(tok)) {
                    ctx.violation(QStringLiteral("C17/sensitive-value-in-public-part:") + e.name,
                                  QStringLiteral("token '%1' of sensitive extension %2 occurs in the public serialisation: %3").arg(tok, e.name, pubText.left(400)), cj);
                }
            }
        }
        for (auto c = mPub.firstChildElement(); !c.isNull(); c = c.nextSiblingElement()) {
            bool allowed = false;
            for (const auto &e : tab) {
                if (e.publicPart && c.tagName() == e.tag && c.namespaceURI() == e.ns) {
                    allowed = true;
                }
            }
            if (!allowed) {
                ctx.violation(QStringLiteral("C17/sensitive-element-in-public-part:") + c.tagName(),
                              QStringLiteral("element <%1 xmlns='%2'> is written into the public part").arg(c.tagName(), c.namespaceURI()), cj);
            }
            if (c.tagName() == QLatin1String("body") && c.text() != m.e2eeFallbackBody()) {
                ctx.violation(QStringLiteral("C17/public-body-is-not-the-fallback-body"), QStringLiteral("public <body/> is '%1'").arg(c.text().left(60)), cj);
            }
        }

        // (2) partition: children(all) + fallback body + fallback markers = children(public) + children(sensitive)
        QStringList lhs = childCanons(mAll);
        QStringList rhs = childCanons(mPub) + childCanons(rSens);
        if (!m.e2eeFallbackBody().isEmpty()) {
            QDomDocument d;
            auto b = parseWrapped(writeXml([&](QXmlStreamWriter *w) { w->writeTextElement(QStringLiteral("body"), m.e2eeFallbackBody()); }), "jabber:client", &d);
            lhs << canonXml(b.firstChildElement(), true);
        }
        for (auto c = mAll.firstChildElement(); !c.isNull(); c = c.nextSiblingElement()) {
            if (c.tagName() == QLatin1String("fallback") && c.namespaceURI() == QLatin1String("urn:xmpp:fallback:0")) {
                lhs << canonXml(c, true);
            }
        }
        lhs.sort();
        rhs.sort();
        if (lhs != rhs) {
            QStringList onlyL, onlyR;
            auto l2 = lhs, r2 = rhs;
            for (const auto &x : lhs) {
                if (r2.contains(x)) {
                    r2.removeOne(x);
                } else {
                    onlyL << x;
                }
            }
            onlyR = r2;
            auto tagOf = [](const QString &c) { return c.mid(1, c.indexOf(QLatin1Char('>')) - 1).section(QLatin1Char(' '), 0, 0); };
            const QString what = !onlyL.isEmpty() ? QStringLiteral("missing-from-both-parts:") + tagOf(onlyL.first()) : QStringLiteral("in-both-parts-or-extra:") + tagOf(onlyR.first());
            ctx.violation(QStringLiteral("C17/partition:") + what,
                          QStringLiteral("public+sensitive != combined. only in combined: [%1]; only in parts: [%2]").arg(onlyL.join(QLatin1Char(' ')).left(500), onlyR.join(QLatin1Char(' ')).left(500)), cj);
        }

        // (3) recovery the way the OMEMO manager does it
        QXmppMessage r;
        r.parse(mPub, QXmpp::ScePublic);
        const QString recoveredFallbackBody = r.e2eeFallbackBody();
        r.setFallbackMarkers({});
        r.parseExtensions(rSens, QXmpp::SceSensitive);
        {
            // compare through the combined serialisation, fallback markers aside, plus the unknown-extension lists
            QXmppMessage a = m, b = r;
            a.setFallbackMarkers({});
            b.setFallbackMarkers({});
            QDomDocument da, db;
            const auto ea = parseWrapped(ser(a, QXmpp::SceAll), "jabber:client", &da).firstChildElement();
            const auto eb = parseWrapped(ser(b, QXmpp::SceAll), "jabber:client", &db).firstChildElement();
            const QString ca = canonXml(ea, true), cb = canonXml(eb, true);
            QStringList unknownA, unknownB;
            for (const auto &x : a.extensions()) {
                unknownA << x.tagName();
            }
            for (const auto &x : b.extensions()) {
                unknownB << x.tagName();
            }
            if (ca != cb) {
                ctx.violation(QStringLiteral("C17/recovery-differs"), QStringLiteral("recombined message serialises differently: %1 vs %2").arg(ca.left(600), cb.left(600)), cj);
            } else if (unknownA != unknownB) {
                for (const auto &tagName : std::as_const(unknownB)) {
                    if (!unknownA.contains(tagName)) {
                        ctx.violation(QStringLiteral("C17/not-recovered-as-field:") + tagName,
                                      QStringLiteral("after recombination <%1/> is an unknown extension instead of a parsed field (all unknown: %2)").arg(tagName, unknownB.join(QLatin1Char(','))), cj);
                    }
                }
            }
            if (recoveredFallbackBody != m.e2eeFallbackBody() || r.body() != m.body()) {
                ctx.violation(QStringLiteral("C17/body-or-fallback-body-not-recovered"),
                              QStringLiteral("body '%1' vs '%2', fallback body '%3' vs '%4'").arg(m.body(), r.body(), m.e2eeFallbackBody(), recoveredFallbackBody), cj);
            }
        }
        ctx.outcome(QString::fromUtf8(pub.left(200)));
    }
};

int main(int argc, char **argv)
{
    QCoreApplication app(argc, argv);
    EnumCtx ctx;
    ctx.parseArgs(argc, argv);
    Checker ck { ctx, table() };
    const int n = int(ck.tab.size());
    const int k = ctx.opts.value(QStringLiteral("k"), ctx.thorough() ? QStringLiteral("5") : QStringLiteral("3")).toInt();

    if (ctx.replay) {
        std::vector<int> idx;
        for (const auto &v : ctx.replayCase.value(QStringLiteral("exts")).toArray()) {
            idx.push_back(v.toInt());
        }
        ck.check(idx);
        return ctx.finish();
    }
    if (ctx.shard == 0) {
        ctx.count(QStringLiteral("extensions_in_table"), n);
        ctx.count(QStringLiteral("max_subset_size"), k);
    }
    // all subsets of size <= k with at most one entry per group
    std::vector<int> cur;
    std::function<void(int)> rec = [&](int start) {
        if (ctx.mine()) {
            ck.check(cur);
            if (int(cur.size()) == k && ctx.samples.size() < 5 && (ctx.evaluations % 50) == 0) {
                ctx.sample(ck.caseJson(cur));
            }
        }
        if (int(cur.size()) == k) {
            return;
        }
        for (int i = start; i < n; ++i) {
            bool clash = false;
            for (int j : cur) {
                if (ck.tab[size_t(j)].group == ck.tab[size_t(i)].group) {
                    clash = true;
                }
            }
            if (clash) {
                continue;
            }
            cur.push_back(i);
            rec(i + 1);
            cur.pop_back();
        }
    };
    rec(0);
    // all-set variants: first/second member of every group
    for (int variant = 0; variant < 2; ++variant) {
        std::vector<int> idx;
        QStringList seen;
        for (int i = 0; i < n; ++i) {
            const auto &g = ck.tab[size_t(i)].group;
            int nth = 0;
            for (int j = 0; j < i; ++j) {
                if (ck.tab[size_t(j)].group == g) {
                    ++nth;
                }
            }
            int members = 0;
            for (const auto &e : ck.tab) {
                if (e.group == g) {
                    ++members;
                }
            }
            if (nth == (variant % members)) {
                idx.push_back(i);
            }
        }
        if (ctx.mine()) {
            ck.check(idx);
            ctx.count(QStringLiteral("allset"));
        }
    }
    return ctx.finish();
}
