// C03 — stream framing is independent of how the byte stream is split into reads.
// Real XmppSocket + real QSslSocket over loopback TCP; every 2-way split, every 3-way split
// (bounded by tier), byte-wise split; oracle = event sequence of the unsplit delivery.
#include "XmppSocket.h"
#include "enumctx.h"
#include "loopserver.h"

#include <QDomElement>
#include <QSslSocket>

using namespace verif;
using namespace QXmpp::Private;

struct StreamCase {
    QString name;
    QByteArray bytes;
    int headerEnd = 0;   // index one past the '>' of the (first) stream header
    std::vector<int> forced;   // cut positions that are part of the scenario itself (stream restart)
};

static QByteArray H(const char *s) { return QByteArray(s); }

static std::vector<StreamCase> corpus()
{
    const QByteArray h1 = H("<?xml version='1.0'?><stream:stream xmlns='jabber:client' xmlns:stream='http://etherx.jabber.org/streams' from='example.org' id='s1' version='1.0'>");
    const QByteArray h2 = H("<stream:stream from=\"example.org\" id=\"s2\" version=\"1.0\" xml:lang=\"en\" xmlns:stream=\"http://etherx.jabber.org/streams\" xmlns=\"jabber:client\">");
    const QByteArray h3 = H("<?xml version=\"1.0\" encoding=\"UTF-8\"?>\n<stream:stream xmlns:stream='http://etherx.jabber.org/streams' xmlns='jabber:client' id='a&gt;b' from='example.org' version='1.0'>\n");
    const QByteArray h4 = H("<stream:stream xmlns='jabber:client' xmlns:stream='http://etherx.jabber.org/streams' id='a>b' from='example.org' version='1.0'>");
    const QByteArray hs = H("<stream:stream xmlns='jabber:client' xmlns:stream='http://etherx.jabber.org/streams' id='x' version='1.0'>");
    const QByteArray features = H("<stream:features><mechanisms xmlns='urn:ietf:params:xml:ns:xmpp-sasl'><mechanism>PLAIN</mechanism></mechanisms></stream:features>");
    const QByteArray ascii = H("<message from='a@b/c' to='d@e' type='chat'><body>hello world</body></message>");
    const QByteArray utf8text = QStringLiteral("<message from='a@b/c'><body>é世界\U0001F600</body></message>").toUtf8();
    const QByteArray utf8attr = QStringLiteral("<presence from='rém世@b/\U0001F600x'><status>ok</status></presence>").toUtf8();
    const QByteArray entities = H("<message><body>&amp;&lt;&gt;&quot;&apos;&#x1F600;&#233;</body><subject a='&lt;x&gt;'/></message>");
    const QByteArray iq = H("<iq id='1' type='result'><query xmlns='jabber:iq:roster'><item jid='x@y' name='N'/></query></iq>");
    const QByteArray close = H("</stream:stream>");
    const QByteArray cdata = H("<message><body><![CDATA[a<b>c]]></body></message>");
    const QByteArray smr = H("<r xmlns='urn:xmpp:sm:3'/>");

    std::vector<StreamCase> v;
    auto add = [&](const char *name, const QByteArray &hdr, const QByteArray &rest) {
        StreamCase c;
        c.name = QString::fromLatin1(name);
        c.bytes = hdr + rest;
        c.headerEnd = hdr.trimmed().size();
        v.push_back(c);
    };
    add("decl+features", h1, features);
    add("nodecl-dq+ascii", h2, ascii);
    add("short+utf8text", hs, utf8text);
    add("short+utf8attr", hs, utf8attr);
    add("short+entities", hs, entities);
    add("short+two-stanzas+close", hs, ascii + iq + close);
    add("short+ws-keepalive", hs, smr + H(" \n ") + iq + H("\n") + smr);
    add("escaped-gt-in-header", h3, iq);
    add("literal-gt-in-header", h4, iq);
    add("short+cdata+close", hs, cdata + close);
    add("short+restart", hs, features + hs + iq);
    v.back().forced = { int(hs.size() + features.size()) };
    add("short+close-only", hs, close);
    add("decl+utf8+entities+close", h1, utf8text + entities + utf8attr + close);
    // peers that write a line break after the closing tag (and between stanzas)
    add("short+stanza+close+newline", hs, ascii + H("\n") + iq + close + H("\n"));
    add("short+close+crlf", hs, close + H("\r\n"));
    return v;
}

struct Recorder : public QObject {
    QStringList events;
    int pings = 0;
};

static QString streamAttrs(const QDomElement &e)
{
    QStringList a;
    const auto m = e.attributes();
    for (int i = 0; i < m.count(); ++i) {
        const auto at = m.item(i).toAttr();
        a << at.name() + QLatin1Char('=') + at.value();
    }
    a.sort();
    return QStringLiteral("OPEN ") + e.tagName() + QLatin1Char(' ') + a.join(QLatin1Char(' '));
}

static int g_worker = 0;

// Runs one delivery of `bytes` cut at `cuts` (sorted, 0<cut<n); returns the event log.
static QStringList deliver(const StreamCase &scase, const std::vector<int> &chosen, bool *ok)
{
    *ok = true;
    const QByteArray &bytes = scase.bytes;
    std::vector<int> cuts = chosen;
    for (int f : scase.forced) {
        if (std::find(cuts.begin(), cuts.end(), f) == cuts.end()) {
            cuts.push_back(f);
        }
    }
    std::sort(cuts.begin(), cuts.end());
    LoopServer server(g_worker);
    if (!server.start()) {
        *ok = false;
        return { QStringLiteral("listen failed") };
    }
    Recorder rec;
    {
        QXmppLoggable parent;
        XmppSocket xs(&parent);
        auto *sock = new QSslSocket(&parent);
        xs.setSocket(sock);
        QObject::connect(&xs, &XmppSocket::streamReceived, &rec, [&](const QDomElement &e) { rec.events << streamAttrs(e); });
        QObject::connect(&xs, &XmppSocket::stanzaReceived, &rec, [&](const QDomElement &e) {
            if (e.isNull()) {
                ++rec.pings;
            } else {
                rec.events << QStringLiteral("STANZA ") + canonXml(e, false);
            }
        });
        QObject::connect(&xs, &XmppSocket::streamClosed, &rec, [&]() { rec.events << QStringLiteral("CLOSE"); });
        QObject::connect(sock, &QAbstractSocket::connected, &rec, [sock]() { LoopServer::setNoDelay(sock); });
        xs.connectToHost({ ServerAddress::Tcp, server.host(), server.port() });
        if (!server.waitAccepted(0) || !server.barrier(sock)) {
            *ok = false;
            return { QStringLiteral("connect failed") };
        }
        int last = 0;
        for (size_t i = 0; i <= cuts.size(); ++i) {
            const int end = i < cuts.size() ? cuts[i] : bytes.size();
            server.write(bytes.mid(last, end - last));
            last = end;
            if (!server.barrier(sock)) {
                *ok = false;
                return { QStringLiteral("barrier timeout") };
            }
        }
        server.closePeer(true);
        server.barrier(sock);
    }
    QCoreApplication::sendPostedEvents(nullptr, QEvent::DeferredDelete);
    return rec.events;
}

static QString classifyCut(const StreamCase &sc, int cut)
{
    const auto &b = sc.bytes;
    if ((uchar(b[cut]) & 0xC0) == 0x80) {
        return QStringLiteral("inside-utf8-char");
    }
    // determine lexical context by scanning from start
    bool inTag = false, inEntity = false;
    char quote = 0;
    int tagStart = 0;
    for (int i = 0; i < cut; ++i) {
        char c = b[i];
        if (inTag) {
            if (quote) {
                if (c == quote) {
                    quote = 0;
                } else if (c == '&') {
                    inEntity = true;
                } else if (c == ';') {
                    inEntity = false;
                }
            } else if (c == '"' || c == '\'') {
                quote = c;
            } else if (c == '>') {
                inTag = false;
            }
        } else {
            if (c == '<') {
                inTag = true;
                tagStart = i;
                inEntity = false;
            } else if (c == '&') {
                inEntity = true;
            } else if (c == ';') {
                inEntity = false;
            }
        }
    }
    const bool inHeader = inTag && (b.mid(tagStart, 14) == "<stream:stream" || b.mid(tagStart, 5) == "<?xml");
    if (inEntity) {
        return QStringLiteral("inside-entity");
    }
    if (inTag && quote) {
        return inHeader ? QStringLiteral("inside-header-attr-value") : QStringLiteral("inside-attr-value");
    }
    if (inTag) {
        return inHeader ? QStringLiteral("inside-header-tag") : QStringLiteral("inside-tag");
    }
    if (cut <= sc.headerEnd + 2 && cut >= sc.headerEnd) {
        return QStringLiteral("after-header");
    }
    return QStringLiteral("between-tags-or-text");
}

static QJsonObject caseJson(const StreamCase &sc, int streamIdx, const std::vector<int> &cuts)
{
    return { { QStringLiteral("stream"), streamIdx }, { QStringLiteral("name"), sc.name }, { QStringLiteral("cuts"), toJsonArray(cuts) } };
}

int main(int argc, char **argv)
{
    QCoreApplication app(argc, argv);
    EnumCtx ctx;
    ctx.parseArgs(argc, argv);
    g_worker = ctx.shard;
    const auto streams = corpus();
    // 3-way splits: quick only for streams up to this many bytes
    const int threeWayLimit = ctx.thorough() ? 100000 : ctx.opts.value(QStringLiteral("three"), QStringLiteral("150")).toInt();

    auto evalCase = [&](int si, const std::vector<int> &cuts, const QStringList &ref) {
        const auto &sc = streams[si];
        bool ok = false;
        auto got = deliver(sc, cuts, &ok);
        if (!ok) {
            // infrastructure failure: retry once, then report as internal error (exit code 3)
            got = deliver(sc, cuts, &ok);
            if (!ok) {
                fprintf(stderr, "INTERNAL: %s\n", qPrintable(got.join(QLatin1Char(';'))));
                exit(3);
            }
        }
        ++ctx.evaluations;
        bool nontrivial = false;
        QStringList classes;
        for (int c : cuts) {
            const auto cl = classifyCut(sc, c);
            classes << cl;
            if (cl != QLatin1String("between-tags-or-text") && cl != QLatin1String("after-header")) {
                nontrivial = true;
            }
            if (cuts.size() <= 2) {
                ctx.count(QStringLiteral("cut:") + cl);
            }
        }
        if (nontrivial) {
            ++ctx.nontrivial;
        }
        if (got != ref) {
            // find culprit classes: cuts that fail alone
            QStringList culprit;
            if (cuts.size() > 1 && cuts.size() <= 3) {
                for (int c : cuts) {
                    bool ok2 = false;
                    auto g2 = deliver(sc, { c }, &ok2);
                    if (ok2 && g2 != ref) {
                        culprit << classifyCut(sc, c);
                    }
                }
            } else if (cuts.size() == 1) {
                culprit = classes;
            } else {
                // byte-wise delivery: which single cuts fail on their own?
                for (int c : cuts) {
                    bool ok2 = false;
                    auto g2 = deliver(sc, { c }, &ok2);
                    if (ok2 && g2 != ref) {
                        culprit << classifyCut(sc, c);
                    }
                }
            }
            culprit.removeDuplicates();
            culprit.sort();
            QString key;
            if (!culprit.isEmpty()) {
                key = QStringLiteral("C03/split:") + culprit.join(QLatin1Char('+'));
            } else if (cuts.size() > 3) {
                key = QStringLiteral("C03/split-bytewise");
            } else {
                classes.removeDuplicates();
                classes.sort();
                key = QStringLiteral("C03/split-combination:") + classes.join(QLatin1Char('+'));
            }
            if (sc.name == QLatin1String("literal-gt-in-header")) {
                key += QStringLiteral(":header-has-literal-gt");
            }
            QString msg = QStringLiteral("stream '%1' cuts %2: events differ from unsplit delivery; expected [%3] got [%4]")
                              .arg(sc.name)
                              .arg(QString::fromUtf8(QJsonDocument(toJsonArray(cuts)).toJson(QJsonDocument::Compact)))
                              .arg(ref.join(QStringLiteral(" | ")).left(600), got.join(QStringLiteral(" | ")).left(600));
            ctx.violation(key, msg, caseJson(sc, si, cuts));
            ctx.outcome(QStringLiteral("diff:") + key);
        } else {
            ctx.outcome(QStringLiteral("same:") + sc.name);
        }
        if (ctx.verbose) {
            fprintf(stderr, "stream=%s cuts=%s\n ref: %s\n got: %s\n", qPrintable(sc.name),
                    QJsonDocument(toJsonArray(cuts)).toJson(QJsonDocument::Compact).constData(),
                    qPrintable(ref.join(QStringLiteral("\n      "))), qPrintable(got.join(QStringLiteral("\n      "))));
        }
    };

    if (ctx.replay) {
        const int si = ctx.replayCase.value(QStringLiteral("stream")).toInt();
        std::vector<int> cuts;
        for (const auto &v : ctx.replayCase.value(QStringLiteral("cuts")).toArray()) {
            cuts.push_back(v.toInt());
        }
        bool ok = false;
        const auto ref = deliver(streams[si], {}, &ok);
        if (ctx.replayCase.value(QStringLiteral("unsplit")).toBool()) {
            std::vector<int> all;
            for (int c = 1; c < streams[si].bytes.size(); ++c) {
                all.push_back(c);
            }
            bool okb = true;
            const QStringList bytewise = deliver(streams[si], all, &okb);
            fprintf(stderr, "one read: %d event(s); byte by byte: %d event(s)\n", int(ref.size()), int(bytewise.size()));
            if (ref.size() < 2 && okb && bytewise.size() >= 2) {
                ctx.violation(QStringLiteral("C03/unsplit-delivery-loses-events:") + streams[si].name, QStringLiteral("one read: %1 event(s), byte by byte: %2").arg(ref.size()).arg(bytewise.size()), ctx.replayCase);
            }
            return ctx.finish();
        }
        evalCase(si, cuts, ref);
        return ctx.finish();
    }

    for (int si = 0; si < int(streams.size()); ++si) {
        const auto &sc = streams[si];
        const int n = sc.bytes.size();
        bool ok = false;
        const auto ref = deliver(sc, {}, &ok);
        const auto ref2 = deliver(sc, {}, &ok);
        if (!ok || ref != ref2) {
            fprintf(stderr, "INTERNAL: reference delivery not deterministic for %s\n", qPrintable(sc.name));
            return 3;
        }
        if (ctx.shard == 0) {
            ctx.count(QStringLiteral("streams"));
            ctx.count(QStringLiteral("reference_events"), ref.size());
            if (ref.size() < 2) {
                // every corpus stream has at least a header and one more event: if the unsplit delivery shows fewer while the
                // byte-wise delivery shows them, the unsplit delivery lost them -- a violation, not a vacuous run
                std::vector<int> all;
                for (int c = 1; c < n; ++c) {
                    all.push_back(c);
                }
                bool okb = true;
                const QStringList bytewise = deliver(sc, all, &okb);
                if (okb && bytewise.size() >= 2) {
                    QJsonArray cuts;
                    ctx.violation(QStringLiteral("C03/unsplit-delivery-loses-events:") + sc.name,
                                  QStringLiteral("stream '%1' delivered in one read gives %2 event(s), delivered byte by byte %3: %4").arg(sc.name).arg(ref.size()).arg(bytewise.size()).arg(bytewise.join(QStringLiteral(" | ")).left(300)),
                                  QJsonObject { { QStringLiteral("stream"), si }, { QStringLiteral("cuts"), cuts }, { QStringLiteral("name"), sc.name }, { QStringLiteral("unsplit"), true } });
                    continue;
                }
                fprintf(stderr, "INTERNAL: reference for %s has only %d events (vacuous)\n", qPrintable(sc.name), int(ref.size()));
                return 3;
            }
        }
        // all 2-way splits
        for (int c = 1; c < n; ++c) {
            if (ctx.mine()) {
                evalCase(si, { c }, ref);
                if (c == n / 2) {
                    ctx.sample(caseJson(sc, si, { c }));
                }
            }
        }
        // byte-wise
        if (ctx.mine()) {
            std::vector<int> all;
            for (int c = 1; c < n; ++c) {
                all.push_back(c);
            }
            evalCase(si, all, ref);
            ctx.count(QStringLiteral("bytewise"));
        }
        // all 3-way splits
        if (n <= threeWayLimit) {
            if (ctx.shard == 0) {
                ctx.count(QStringLiteral("streams_with_all_3way"));
            }
            for (int c1 = 1; c1 < n; ++c1) {
                for (int c2 = c1 + 1; c2 < n; ++c2) {
                    if (ctx.mine()) {
                        evalCase(si, { c1, c2 }, ref);
                    }
                }
            }
        }
    }
    return ctx.finish();
}
