// C04 — with TLS required nothing sensitive leaves the client before the link is encrypted. BFS worker:
// server scripts over a hostile/odd alphabet against a real QXmppClient (TLSRequired) with a real TLS leg.
#include "QXmppSasl2UserAgent.h"
#include "QXmppSasl_p.h"
#include "clientrig.h"

#include <QCryptographicHash>

using namespace verif;

namespace {

const QString PASSWORD = QStringLiteral("S3CRETPASSW0RD");
const QString RESOURCE = QStringLiteral("SECRETRESOURCE");
const QString FASTSECRET = QStringLiteral("FASTT0KENSECRET");
const QString STREAMID = QStringLiteral("streamid42");

struct Ev {
    QString name;
    QByteArray xml;      // what the server writes ("" for special events)
    int special = 0;     // 1 = proceed (+TLS handshake), 2 = legacy field offer (id of last iq), 3 = iq result (last id), 4 = close
    int deviation = 0;
    bool featuresWithoutTls = false;
};

QByteArray hdr(bool version, bool id)
{
    QByteArray h = "<?xml version='1.0'?><stream:stream xmlns='jabber:client' xmlns:stream='http://etherx.jabber.org/streams' from='example.org'";
    if (id) {
        h += " id='" + STREAMID.toUtf8() + "'";
    }
    if (version) {
        h += " version='1.0'";
    }
    return h + ">";
}

std::vector<Ev> buildEvents()
{
    std::vector<Ev> e;
    e.push_back({ QStringLiteral("header(version,id)"), hdr(true, true) });
    e.push_back({ QStringLiteral("header(no version,id)"), hdr(false, true), 0, 1 });
    e.push_back({ QStringLiteral("header(no version,no id)"), hdr(false, false), 0, 1 });
    const char *tlsNames[] = { "absent", "offered", "required" };
    const QByteArray tlsXml[] = { "", "<starttls xmlns='urn:ietf:params:xml:ns:xmpp-tls'/>", "<starttls xmlns='urn:ietf:params:xml:ns:xmpp-tls'><required/></starttls>" };
    const char *offerNames[] = { "sasl", "sasl2", "legacy-auth", "bind+sm", "empty" };
    const QByteArray offerXml[] = {
        "<mechanisms xmlns='urn:ietf:params:xml:ns:xmpp-sasl'><mechanism>PLAIN</mechanism><mechanism>SCRAM-SHA-1</mechanism><mechanism>DIGEST-MD5</mechanism></mechanisms>",
        "<authentication xmlns='urn:xmpp:sasl:2'><mechanism>PLAIN</mechanism><mechanism>SCRAM-SHA-1</mechanism><inline><bind xmlns='urn:xmpp:bind:0'/><fast xmlns='urn:xmpp:fast:0'><mechanism>HT-SHA-256-NONE</mechanism></fast></inline></authentication>",
        "<auth xmlns='http://jabber.org/features/iq-auth'/>",
        "<bind xmlns='urn:ietf:params:xml:ns:xmpp-bind'/><sm xmlns='urn:xmpp:sm:3'/>",
        ""
    };
    for (int t = 0; t < 3; ++t) {
        for (int o = 0; o < 5; ++o) {
            Ev ev { QStringLiteral("features(starttls %1; %2)").arg(QString::fromLatin1(tlsNames[t]), QString::fromLatin1(offerNames[o])),
                    "<stream:features>" + tlsXml[t] + offerXml[o] + "</stream:features>", 0, (t == 1 || t == 2) && o == 0 ? 0 : 1 };
            ev.featuresWithoutTls = t == 0;
            e.push_back(ev);
        }
    }
    e.push_back({ QStringLiteral("<proceed/> + TLS handshake"), "<proceed xmlns='urn:ietf:params:xml:ns:xmpp-tls'/>", 1, 0 });
    e.push_back({ QStringLiteral("tls <failure/>"), "<failure xmlns='urn:ietf:params:xml:ns:xmpp-tls'/>", 0, 1 });
    e.push_back({ QStringLiteral("legacy-auth field offer (iq result, last id)"), "", 2, 1 });
    e.push_back({ QStringLiteral("empty iq result (last id)"), "", 3, 1 });
    e.push_back({ QStringLiteral("iq get jabber:iq:version"), "<iq type='get' id='v1' from='example.org'><query xmlns='jabber:iq:version'/></iq>", 0, 1 });
    e.push_back({ QStringLiteral("iq get disco#info"), "<iq type='get' id='d1' from='example.org'><query xmlns='http://jabber.org/protocol/disco#info'/></iq>", 0, 1 });
    e.push_back({ QStringLiteral("iq get unknown"), "<iq type='get' id='u1' from='example.org'><query xmlns='urn:verif:unknown'/></iq>", 0, 1 });
    e.push_back({ QStringLiteral("sasl <success/>"), "<success xmlns='urn:ietf:params:xml:ns:xmpp-sasl'/>", 0, 1 });
    e.push_back({ QStringLiteral("sasl <challenge/>"), "<challenge xmlns='urn:ietf:params:xml:ns:xmpp-sasl'>cj1meWtvK2QybGJiRmdPTlJ2OXFreGRhd0wzcmZjTkhZSlkxWlZ2V1ZzN2oscz1RU1hDUitRNnNlazhiZjkyLGk9NDA5Ng==</challenge>", 0, 1 });
    e.push_back({ QStringLiteral("sm <enabled/>"), "<enabled xmlns='urn:xmpp:sm:3' id='x' resume='true'/>", 0, 1 });
    e.push_back({ QStringLiteral("sm <r/>"), "<r xmlns='urn:xmpp:sm:3'/>", 0, 1 });
    e.push_back({ QStringLiteral("message"), "<message from='contact@example.org/x' type='chat'><body>hi</body><request xmlns='urn:xmpp:receipts'/></message>", 0, 1 });
    e.push_back({ QStringLiteral("presence subscribe"), "<presence from='contact@example.org' type='subscribe'/>", 0, 1 });
    e.push_back({ QStringLiteral("stream error see-other-host"), "", 5, 1 });
    e.push_back({ QStringLiteral("encrypted connection lost, client reconnects (to a server that does not encrypt yet)"), "", 6, 1 });
    return e;
}

struct Exec {
    ClientRig rig;
    std::vector<Ev> events = buildEvents();
    RunResult res;
    QStringList plainClasses;   // classification of everything received unencrypted, in order
    bool encrypted = false;
    bool tcpOpen = false;
    QByteArray lastIqId = "none";
    int cfgIndex = 0;
    int unencryptedItemsSeen = 0;
    bool headerSent = false;
    int acceptedSeen = 1;

    explicit Exec(int worker) : rig(worker, true) { }
    ~Exec() { rig.client.reset(); }

    void violate(const QString &key, const QString &msg) { res.violations.append(violation(QStringLiteral("C04/") + key, msg)); }
    void witness(const char *k) { res.witness[QString::fromLatin1(k)] = res.witness.value(QString::fromLatin1(k)).toInt() + 1; }

    QXmppConfiguration config()
    {
        auto c = rig.baseConfig();
        c.setStreamSecurityMode(QXmppConfiguration::TLSRequired);
        c.setUser(QStringLiteral("alice"));
        c.setPassword(PASSWORD);
        c.setResource(RESOURCE);
        c.setDisabledSaslMechanisms({});
        switch (cfgIndex) {
        case 0: break;                                     // everything on
        case 1: c.setUseSasl2Authentication(false); break; // SASL + legacy
        case 2: c.setUseNonSASLAuthentication(false); break;
        case 3: {
            c.setSasl2UserAgent(QXmppSasl2UserAgent(QUuid::fromString(QStringLiteral("d4565fa7-4d72-4749-b3d3-740edbf87770")), QStringLiteral("v"), QStringLiteral("d")));
            QXmpp::Private::HtToken t;
            t.mechanism = *QXmpp::Private::SaslHtMechanism::fromString(QStringLiteral("HT-SHA-256-NONE"));
            t.secret = FASTSECRET;
            t.expiry = QDateTime::fromSecsSinceEpoch(4102444800LL);
            c.credentialData().htToken = t;
            break;
        }
        case 4: c.setUseSASLAuthentication(false); c.setUseSasl2Authentication(false); break;   // legacy only
        case 5: c.setNonSASLAuthMechanism(QXmppConfiguration::NonSASLPlain); c.setUseSasl2Authentication(false); break;
        }
        return c;
    }

    // classify what arrived unencrypted since the last call
    void absorbPlain(const QString &ctx)
    {
        const auto items = rig.sync();
        if (encrypted) {
            return;
        }
        for (const auto &item : items) {
            const QByteArray it = item.trimmed();
            if (it.isEmpty()) {
                continue;
            }
            ++unencryptedItemsSeen;
            res.obs << QStringLiteral("PLAIN C>S ") + QString::fromUtf8(it.left(200));
            QString cls;
            if (it.startsWith("<?xml")) {
                cls = QStringLiteral("xmldecl");
            } else if (it.startsWith("<stream:stream")) {
                cls = QStringLiteral("header");
            } else if (it.startsWith("</stream:stream")) {
                cls = QStringLiteral("close");
            } else {
                QDomDocument d;
                const auto el = parseXml(QByteArray("<w xmlns='jabber:client'>") + it + "</w>", &d).firstChildElement();
                if (el.isNull()) {
                    cls = QStringLiteral("non-xml-bytes");
                } else if (el.tagName() == QLatin1String("starttls") && el.namespaceURI() == QLatin1String("urn:ietf:params:xml:ns:xmpp-tls")) {
                    cls = QStringLiteral("starttls");
                    lastStarttls = true;
                } else {
                    QString child = el.firstChildElement().isNull() ? QString() : QStringLiteral(">") + el.firstChildElement().tagName() + QLatin1Char('@') + el.firstChildElement().namespaceURI();
                    cls = QStringLiteral("LEAK:") + el.tagName() + QLatin1Char('@') + el.namespaceURI() + (el.hasAttribute(QStringLiteral("type")) ? QLatin1Char(':') + el.attribute(QStringLiteral("type")) : QString()) + child;
                    if (el.tagName() == QLatin1String("iq") && el.hasAttribute(QStringLiteral("id"))) {
                        lastIqId = el.attribute(QStringLiteral("id")).toUtf8();
                    }
                    violate(QStringLiteral("cleartext:") + cls.mid(5), QStringLiteral("%1: with TLS required the client sent this over the unencrypted connection: %2").arg(ctx, QString::fromUtf8(it.left(300))));
                }
            }
            plainClasses << cls;
        }
        checkSecrets(ctx);
    }

    bool lastStarttls = false;
    bool redirectedAfterTls = false;
    QSet<QString> secretsReported;

    void checkSecrets(const QString &ctx)
    {
        const QByteArray plain = rig.server.rxPlain();
        const QByteArray plainB64 = QByteArray(1, '\0') + "alice" + QByteArray(1, '\0') + PASSWORD.toUtf8();
        const QByteArray digest = QCryptographicHash::hash((STREAMID + PASSWORD).toUtf8(), QCryptographicHash::Sha1).toHex();
        const QList<QPair<QString, QByteArray>> secrets = {
            { QStringLiteral("password"), PASSWORD.toUtf8() }, { QStringLiteral("sasl-plain-response"), plainB64.toBase64() }, { QStringLiteral("legacy-digest"), digest },
            { QStringLiteral("fast-token"), FASTSECRET.toUtf8() }, { QStringLiteral("resource"), RESOURCE.toUtf8() }, { QStringLiteral("scram-client-first"), QByteArray("n,,n=alice").toBase64().left(12) }
        };
        for (const auto &s : secrets) {
            if (plain.contains(s.second) && !secretsReported.contains(s.first)) {
                secretsReported.insert(s.first);
                violate(QStringLiteral("secret-in-cleartext:") + s.first, QStringLiteral("%1: the %2 was transmitted before the link was encrypted").arg(ctx, s.first));
            }
        }
    }

    bool start()
    {
        if (!rig.listen()) {
            return false;
        }
        const int before = rig.server.acceptedCount();
        rig.client->connectToServer(config());
        if (!rig.server.waitAccepted(before)) {
            rig.error = QStringLiteral("client did not connect");
            return false;
        }
        tcpOpen = true;
        absorbPlain(QStringLiteral("connect"));
        return true;
    }

    void step(int evId)
    {
        const Ev &e = events[size_t(evId)];
        const QString ctx = e.name;
        QByteArray xml = e.xml;
        if (e.special == 2) {
            xml = "<iq type='result' id='" + lastIqId + "' from='example.org'><query xmlns='jabber:iq:auth'><username/><password/><digest/><resource/></query></iq>";
        } else if (e.special == 3) {
            xml = "<iq type='result' id='" + lastIqId + "' from='example.org'/>";
        } else if (e.special == 5) {
            xml = "<stream:error><see-other-host xmlns='urn:ietf:params:xml:ns:xmpp-streams'>" + rig.server.host().toUtf8() + ":" + QByteArray::number(rig.server.port()) + "</see-other-host></stream:error>";
        }
        if (evId < 3) {
            headerSent = true;
        }
        if (e.special == 1) {
            // <proceed/>: look at what the client writes next BEFORE the server starts its side of the handshake
            const bool asked = lastStarttls;
            rig.server.holdReads(true);
            rig.server.write(xml);
            rig.server.barrier(rig.csock());
            const QByteArray pending = rig.server.peekPending();
            // non-TLS bytes (e.g. </stream:stream> after an unsolicited <proceed/>) are classified like all other
            // plaintext below, once reading is released
            if (!pending.isEmpty() && uchar(pending[0]) == 0x16) {
                if (rig.server.startTls(rig.csock())) {
                    encrypted = true;
                    witness("tls_completed");
                    // drive one friendly step to see credentials go out encrypted
                    rig.server.holdReads(false);
                    rig.sync();
                    auto items = rig.serverSend(hdr(true, true) + "<stream:features><mechanisms xmlns='urn:ietf:params:xml:ns:xmpp-sasl'><mechanism>PLAIN</mechanism><mechanism>SCRAM-SHA-1</mechanism></mechanisms>"
                                                "<authentication xmlns='urn:xmpp:sasl:2'><mechanism>PLAIN</mechanism><mechanism>SCRAM-SHA-1</mechanism></authentication><auth xmlns='http://jabber.org/features/iq-auth'/></stream:features>");
                    for (const auto &i : items) {
                        if (i.startsWith("<auth") || i.startsWith("<iq")) {
                            witness("credentials_sent_encrypted");
                        }
                    }
                    if (!rig.csock()->isEncrypted()) {
                        violate(QStringLiteral("model-error"), QStringLiteral("client socket not encrypted after handshake"));
                    }
                } else {
                    res.obs << QStringLiteral("TLS handshake failed");
                }
            } else if (asked && pending.isEmpty() && rig.csock()->state() == QAbstractSocket::ConnectedState) {
                res.obs << QStringLiteral("client did not start TLS after proceed");
            }
            rig.server.holdReads(false);
            absorbPlain(ctx);
            lastStarttls = false;
        } else if (encrypted && e.special == 6) {
            // the encrypted connection is lost in the middle of the authentication exchange; the application connects again
            const int before = rig.server.acceptedCount();
            rig.server.closePeer(true);
            rig.server.pumpUntil([&] { return rig.csock()->state() == QAbstractSocket::UnconnectedState; }, 2000);
            rig.client->connectToServer(config());
            rig.server.pumpUntil([&] { return rig.server.acceptedCount() > before; }, 2000);
            if (rig.server.acceptedCount() > before) {
                encrypted = false;
                redirectedAfterTls = true;
                witness("reconnected_after_tls");
            }
            absorbPlain(ctx);
        } else if (encrypted && e.special == 5) {
            // see-other-host over the encrypted stream: the client reconnects in clear; what it writes there is judged again
            const int before = rig.server.acceptedCount();
            rig.server.write(xml);
            // (the TLS shutdown passes through the unconnected state before the client dials the new address: only the accept counts)
            rig.server.pumpUntil([&] { return rig.server.acceptedCount() > before; }, 1500);
            if (rig.server.acceptedCount() > before) {
                encrypted = false;
                redirectedAfterTls = true;
                witness("redirected_after_tls");
            }
            absorbPlain(ctx);
        } else {
            rig.server.write(xml);
            absorbPlain(ctx);
        }
        if (rig.server.acceptedCount() != acceptedSeen) {
            // the client opened a new connection (redirect): a new stream starts, nothing but a header is parseable
            acceptedSeen = rig.server.acceptedCount();
            headerSent = false;
            lastStarttls = false;
            witness("reconnected_after_redirect");
        }
        tcpOpen = rig.server.peerConnected() && rig.csock()->state() == QAbstractSocket::ConnectedState;
        // liveness half: encryption cannot be negotiated -> the client gives up
        if (!encrypted && tcpOpen && (e.featuresWithoutTls || e.name == QLatin1String("tls <failure/>"))) {
            // only binding if the client was in a state where it acts on features (a stream header was received);
            // features before any header are not a "valid" script but the client must not proceed either way
            violate(QStringLiteral("did-not-give-up:") + (e.featuresWithoutTls ? QStringLiteral("features-without-starttls") : QStringLiteral("tls-failure")),
                    QStringLiteral("%1: TLS cannot be negotiated but the client stayed connected").arg(ctx));
        }
        if (!tcpOpen) {
            witness("client_gave_up");
        }
        if (rig.client->isConnected() && !encrypted) {
            violate(QStringLiteral("session-without-tls"), QStringLiteral("%1: the client reports an established session on an unencrypted link").arg(ctx));
        }
    }

    std::vector<int> enabled() const
    {
        std::vector<int> en;
        if (!res.violations.isEmpty() || !tcpOpen) {
            return en;
        }
        if (encrypted) {
            // nothing can leak on the encrypted stream; the only way back to an unencrypted link is a redirect, after which the
            // property must hold again although the client carries state from the encrypted connection
            if (!redirectedAfterTls) {
                for (int i = 0; i < int(events.size()); ++i) {
                    if (events[size_t(i)].special == 6) {   // (a see-other-host error is rejected by the authentication manager that is active here)
                        en.push_back(i);
                    }
                }
            }
            return en;
        }
        // a stream starts with exactly one header; nothing else is parseable before it
        for (int i = 0; i < int(events.size()); ++i) {
            if ((i < 3) != headerSent && events[size_t(i)].special != 6) {
                en.push_back(i);
            }
        }
        return en;
    }

    QString canon() const
    {
        QStringList cls = plainClasses;
        return QStringLiteral("enc%1 tcp%2 hs%7 rt%8 lastiq=%3 st%4 | %5 | %6").arg(encrypted).arg(tcpOpen).arg(QString::fromUtf8(lastIqId)).arg(lastStarttls).arg(cls.join(QLatin1Char(',')), rig.coreSnapshot()).arg(headerSent).arg(redirectedAfterTls);
    }
};

}  // namespace

int main(int argc, char **argv)
{
    QCoreApplication app(argc, argv);
    if (!LoopServer::loadTlsMaterial(QString::fromLocal8Bit(qgetenv("VERIF_TLS_DIR")))) {
        fprintf(stderr, "INTERNAL: no TLS key material in VERIF_TLS_DIR\n");
        return 3;
    }
    Harness h;
    h.describe = [] {
        QJsonArray evs;
        const auto events = buildEvents();
        for (int i = 0; i < int(events.size()); ++i) {
            evs.append(QJsonObject { { QStringLiteral("id"), i }, { QStringLiteral("name"), events[size_t(i)].name }, { QStringLiteral("deviation"), events[size_t(i)].deviation } });
        }
        return QJsonObject { { QStringLiteral("property"), QStringLiteral("C04") }, { QStringLiteral("events"), evs } };
    };
    h.run = [](const QJsonObject &config, const std::vector<int> &history, bool) {
        Exec x(workerId());
        x.cfgIndex = config.value(QStringLiteral("cfg")).toInt();
        if (!x.start()) {
            x.violate(QStringLiteral("harness-connect"), x.rig.error);
        } else {
            for (int ev : history) {
                const auto en = x.enabled();
                if (std::find(en.begin(), en.end(), ev) == en.end()) {
                    x.violate(QStringLiteral("replay-diverged"), QStringLiteral("event %1 not enabled on replay").arg(x.events[size_t(ev)].name));
                    break;
                }
                x.step(ev);
                if (!x.rig.error.isEmpty()) {
                    x.violate(QStringLiteral("harness-barrier"), x.rig.error);
                    break;
                }
            }
        }
        x.res.enabled = x.enabled();
        x.res.canon = x.canon();
        x.res.outcome = QStringLiteral("enc%1 tcp%2 %3").arg(x.encrypted).arg(x.tcpOpen).arg(x.plainClasses.join(QLatin1Char(',')));
        return x.res;
    };
    return workerMain(argc, argv, h);
}
