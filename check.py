#!/usr/bin/env python3
"""Single entry point:  check.py <ID> --tier quick|thorough   |   check.py <ID> --replay FILE

exit 0: property held on everything explored (known findings are printed as KNOWN-FINDING lines)
exit 1: at least one line 'VIOLATION property=<id> replay=<path>' was printed
exit 2: internal error of the machinery (never a verdict about qxmpp)
"""
import argparse
import importlib
import os
import sys
import traceback

sys.path.insert(0, os.path.dirname(os.path.abspath(__file__)))
from engine import common as C  # noqa: E402


def main():
    ap = argparse.ArgumentParser()
    ap.add_argument("prop")
    ap.add_argument("--tier", default=os.environ.get("VERIF_TIER", "quick"), choices=["quick", "thorough"])
    ap.add_argument("--replay")
    a = ap.parse_args()
    prop = a.prop.upper()
    try:
        mod = importlib.import_module("engine.props." + prop.lower())
    except ImportError:
        print("no check for " + prop, file=sys.stderr)
        return 2
    try:
        if a.replay:
            return mod.replay(a.replay)
        return mod.run(a.tier)
    except C.InternalError as e:
        print("INTERNAL-ERROR property=%s %s" % (prop, e), file=sys.stderr)
        return 2
    except Exception:
        traceback.print_exc()
        return 2


if __name__ == "__main__":
    sys.exit(main())
