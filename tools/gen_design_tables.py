#!/usr/bin/env python3
"""Rewrites the generated tables of DESIGN.md §9.2 (seeded changes) and §9.3 (fixed findings) from seeded/*/meta.json and known_findings.json."""
import glob
import json
import os
import re

VERIF = os.path.dirname(os.path.dirname(os.path.abspath(__file__)))


def cell(s, n):
    return s[:n].replace('|', '/').replace('\n', ' ')


def main():
    p = os.path.join(VERIF, 'DESIGN.md')
    s = open(p).read()
    rows = ["| seeded change | needs to manifest | caught by |", "|---|---|---|"]
    for d in sorted(glob.glob(os.path.join(VERIF, 'seeded/*/meta.json'))):
        m = json.load(open(d))
        det = "" if m.get('detected_by_check') else "**NOT DETECTED** — "
        rows.append("| `%s` | %s | %s%s |" % (m['seed'], cell(m['needs_to_manifest'], 260), det, cell(m['caught_by'], 420)))
    k = json.load(open(os.path.join(VERIF, 'known_findings.json')))
    frows = ["| property | status | commit | key | what failed |", "|---|---|---|---|---|"]
    for f in k['findings']:
        w = f['what'].split(' ', 3)[3] if f['what'].startswith('fixed:') else f['what']
        frows.append("| %s | %s | `%s` | `%s` | %s |" % (f['property'], f['status'], f.get('commit', ''), cell(f['key'], 200), cell(w, 600)))
    for tag, body in (('SEEDS', rows), ('FIXES', frows)):
        pat = re.compile(r'<!-- %s-BEGIN -->.*?<!-- %s-END -->' % (tag, tag), re.S)
        assert pat.search(s), tag
        s = pat.sub(lambda m: '<!-- %s-BEGIN -->\n%s\n<!-- %s-END -->' % (tag, "\n".join(body), tag), s)
    open(p, 'w').write(s)


if __name__ == '__main__':
    main()
