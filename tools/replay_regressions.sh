#!/bin/bash
# replay_regressions.sh — replays the stored cases of repaired findings without the explorer; every one must report "no violation".
cd /verif; rc=0
for f in regressions/*.json; do
  prop=$(python3 -c "import json,sys;print(json.load(open('$f'))['property'])")
  out=$(python3 check.py $prop --replay $f 2>/dev/null | tail -1)
  echo "$f: $out"
  case "$out" in *"no violation"*) ;; *) rc=1;; esac
done
exit $rc
