#!/usr/bin/env python3
"""seed_meta.py <seed-id> <PROP> <detected:yes|no> "<needs>" "<caught-by>" — writes /verif/seeded/<id>/meta.json"""
import json, os, sys
sid, prop, det, needs, by = sys.argv[1:6]
d = '/verif/seeded/' + sid
am = {}
if os.path.exists(d + '/agent_meta.json'):
    try:
        am = json.load(open(d + '/agent_meta.json'))
    except Exception:
        am = {}
meta = {
    "seed": sid,
    "property": prop,
    "summary": am.get("summary", ""),
    "needs_to_manifest": needs or am.get("needs", ""),
    "files_changed": am.get("files_changed", []),
    "confirmed_by_me": ("tools/confirm_seed.sh in the agent's scratch worktree: 65/65 baseline tests pass with the change; "
                        "demo/run_demo.sh exits non-zero with the change and 0 with `git checkout -- src` + rebuild"),
    "check_run": "tools/try_seed.sh %s %s (git apply patch.diff in /repo, python3 check.py %s --tier quick, git checkout -- .)" % (sid, prop, prop),
    "detected_by_check": det == "yes",
    "caught_by": by,
}
json.dump(meta, open(d + '/meta.json', 'w'), indent=1)
print(json.dumps(meta, indent=1)[:600])
