#!/usr/bin/env python3
"""MANIFEST.setup_cmd: builds the harness + library from files on disk (offline) and creates the throw-away
TLS key pair used by the C04 harness."""
import os
import sys

sys.path.insert(0, os.path.dirname(os.path.dirname(os.path.abspath(__file__))))
from engine import common as C  # noqa: E402


def main():
    C.ensure_tls_material()
    C.build(["all"], "asan")
    if os.path.exists(os.path.join(C.VERIF, "harness", "fast.list")):
        targets = open(os.path.join(C.VERIF, "harness", "fast.list")).read().split()
        if targets:
            C.build(targets, "fast")
    print("setup ok")


if __name__ == "__main__":
    try:
        main()
    except C.InternalError as e:
        print("setup failed:", e, file=sys.stderr)
        sys.exit(2)
