#!/usr/bin/env python3
"""Regenerates /verif/MANIFEST.json from the table below (single source of truth for what is claimed)."""
import json
import os

VERIF = os.path.dirname(os.path.dirname(os.path.abspath(__file__)))

# id -> dict(category, technique, text, note, design_ref)
CLAIMED = {
    "C03": dict(
        category="exploration",
        technique="exhaustive schedule enumeration (all 2-way/3-way/byte-wise read splits) of the real socket path",
        text=("Every 2-way split, every 3-way split (quick: streams <= 230 bytes, thorough: all) and the byte-wise split of "
              "13 representative streams are delivered through a real loopback TCP connection into XmppSocket; the event "
              "sequence of each delivery is compared with the unsplit delivery. The space of read partitions up to 3 "
              "chunks is covered completely, which is what decides a schedule-quantified framing property."),
        note=("Trusts the quiescence barrier (kernel queues empty on both ends, two idle passes) to make one chunk = one "
              "read; streams <= ~450 bytes; 4+-way splits only byte-wise; whitespace pings not compared."),
        design_ref="§3 C03"),
    "C05": dict(
        category="exploration",
        technique="complete enumeration of the finite configuration space (offered lists x disabled x preferred x credentials x protocol) against a reference function",
        text=("The real SaslManager/Sasl2Manager::authenticate is run for every combination of ordered offered list (all subsets of 12 "
              "names, all permutations of the small ones), disabled set, preferred mechanism, credential availability and protocol "
              "variant (23.5 M cases quick, ~180 M thorough); the emitted mechanism attribute or mismatch error is compared with a "
              "reference function written from the statement. The space is finite and is enumerated, not sampled."),
        note="Non-sanitized -O2 build of the same sources; X- mechanisms without credentials only; SHA-512 vs SHA3-512 order is a don't-care.",
        design_ref="§3 C05"),
    "C07": dict(
        category="model_checking", engine="bfs",
        technique="explicit-state BFS over request/reply/disconnect histories of the real client (loopback TCP) against a completion reference table",
        text=("Breadth-first search over histories of send / reply(kind, sender class) / drop / reconnect(resumed|new) / disconnect / destroy "
              "events for three outstanding requests with different addressee kinds, in a resumable-SM and a no-SM configuration (depth 5/4 "
              "quick, 7 thorough); after each step every task's completion count and value are compared with the reference table of "
              "must / must-not / don't-care sender classes."),
        note="Generic IQ requests only (manager request APIs are not swept here); deterministic replay re-checked every 97th execution.",
        design_ref="§3 C07(a)"),
    "C08": dict(
        category="exploration",
        technique="complete product enumeration of incoming IQs (type x payload x sender x id x extension set), one fresh real client session per case",
        text=("Every combination of 6 type values, 153 payload forms, 4 sender classes, 2 ids and the extension sets none / defaults / all "
              "27 bundled managers (thorough: each manager alone) is injected into a freshly logged-in QXmppClient over loopback TCP and the "
              "number, type, id and address of the replies are counted. The property is a universal statement over payloads and "
              "configurations, so the product is enumerated rather than sampled."),
        note="Managers that need external storages or QNetworkAccessManager are not instantiated; quick restricts multi-child payloads to get/set from a contact.",
        design_ref="§3 C08"),
    "C09": dict(
        category="model_checking", engine="bfs",
        technique="explicit-state BFS over event histories of the real client (loopback TCP, scripted XEP-0198 server) with a reference model compared after every step",
        text=("Breadth-first search over all histories of 24 events (sends, acks with stale/exact/beyond h, <r/>, inbound stanzas, drop, "
              "resumed with any h, new session with/without SM) up to depth 7 with <= 2 drops (quick) / depth 8 (thorough); each "
              "transition replays the history on a fresh QXmppClient over real loopback TCP and checks wire order/content, handled "
              "counts and delivery reports against a 60-line reference model. States are de-duplicated on model + private fields."),
        note=("Trusts the quiescence barrier for determinism (every 97th execution is re-run and must give the same canonical state); "
              "dedup soundness is cross-checked without dedup at depth 3 in the thorough tier; classic <enable/> negotiation only."),
        design_ref="§3 C09"),
    "C10": dict(
        category="fault_enumeration",
        technique="exhaustive enumeration of cut points x script variants x resume answers over up to three consecutive connection attempts of the real client",
        text=("Every combination of script variant (4), resume answer (2), cut point (8) and close kind for the first one or two attempts, "
              "followed by an uncut final attempt of every variant, is executed against a real QXmppClient over loopback TCP (10 k "
              "histories quick); after every loss and every establishment the public state, signal counts, stream-management state "
              "and outstanding requests are checked. State left over from an aborted attempt only shows on the next attempt, hence "
              "sequences of faults are enumerated rather than single faults."),
        note="Legacy <session/> and see-other-host scripts are not enumerated; reconnection through connectToServer(configuration()).",
        design_ref="§3 C10"),
    "C13": dict(
        category="exploration",
        technique="exhaustive enumeration of all operation sequences up to length L over the task/promise API against a reference model",
        text=("All sequences (length <= 7 quick, <= 9 thorough) over copy/obtain/then(3 kinds)/finish/destroy-context/drop operations "
              "are executed on fresh real QXmppPromise/QXmppTask objects for four result types; invocation count, value and "
              "instance-counter balance are compared with a reference model after every sequence, under ASan/UBSan. The "
              "orderings are the quantifier of the property and are enumerated completely within the bound."),
        note="At most 2 promise and 2 task copies; one then() per shared state; single-threaded; user-made cycles excluded from the leak oracle.",
        design_ref="§3 C13"),
    "C14": dict(
        category="exploration",
        technique="exhaustive enumeration of attribute combinations, key lengths and single-fault corruptions of encoded messages, independent HMAC/CRC oracle",
        text=("Round trip over all single attributes, all cross-group pairs and all-set variants; MESSAGE-INTEGRITY and FINGERPRINT "
              "recomputed independently (Qt MAC + bitwise CRC, cross-checked with Python) for every key length up to 100/300; "
              "every single-bit flip, truncation, byte substitution and every value of each 16-bit type/length field of "
              "authenticated messages must be rejected under the key; all decodes run under ASan/UBSan."),
        note="Value alphabets are finite samples of each lexical class; multi-fault corruptions are not enumerated; HMAC collisions ignored.",
        design_ref="§3 C14"),
    "C17": dict(
        category="exploration",
        technique="exhaustive enumeration of all subsets (<= 3 / <= 4) of the 40 known message extensions in the three SCE modes, partition + leak + recovery oracles",
        text=("Every combination of up to 3 (quick) / 4 (thorough) known extensions plus all-set variants is serialised in public, sensitive "
              "and combined mode with the real QXmppMessage code and recombined as the OMEMO manager does; leakage is a universal "
              "negative over fields, so every field and every pair/triple interaction is enumerated."),
        note="Extension values are fixed distinctive tokens; custom/unknown extensions and the OMEMO element (not built) are out of scope.",
        design_ref="§3 C17"),
}

PENDING_REASON = "check not built yet in this revision (see DESIGN.md §7 for the order of work); not claimed"

ALL = ["C%02d" % i for i in range(1, 21)]


def main():
    checks = []
    for pid in ALL:
        if pid not in CLAIMED:
            continue
        c = CLAIMED[pid]
        checks.append({
            "property_id": pid,
            "quick_cmd": "python3 check.py %s --tier quick" % pid,
            "thorough_cmd": "python3 check.py %s --tier thorough" % pid,
            "evidence_file": "/verif/evidence/%s.json" % pid,
            "replay_cmd_template": "python3 check.py %s --replay {path}" % pid,
            "engine": c.get("engine", "enum"),
            "level_claimed": {"category": c["category"], "text": c["text"], "design_ref": c["design_ref"]},
            "level_note": c["note"],
            "technique": c["technique"],
        })
    na = [{"property_id": pid, "reason": CLAIMED_NA.get(pid, PENDING_REASON)} for pid in ALL if pid not in CLAIMED]
    manifest = {
        "version": 1,
        "setup_cmd": "python3 tools/setup.py",
        "hooks": {
            "guard": "QXMPP_VERIF",
            "enable": ("the harness build (cmake -S /verif/harness) compiles /repo's sources with -DQXMPP_VERIF; no source line "
                       "tests the guard: all seams are reached without hooks (-fno-access-control, loopback sockets)"),
            "baseline_off_cmd": ("cmake --build /repo/_build && ctest --test-dir /repo/_build -j8 --timeout 900 "
                                 "-E 'tst_qxmppiceconnection|tst_qxmppserver'"),
            "source_commits": [],
            "add_only": True,
        },
        "engines": [
            {"name": "enum", "path": "engine/enumcheck.py",
             "serves_properties": [p for p in ALL if p in CLAIMED and CLAIMED[p].get("engine", "enum") == "enum"],
             "kind_free_text": "complete enumeration of a finite input/schedule space over the real code, sharded over 16 processes"},
            {"name": "bfs", "path": "engine/explore.py",
             "serves_properties": [p for p in ALL if p in CLAIMED and CLAIMED[p].get("engine") == "bfs"],
             "kind_free_text": "explicit-state breadth-first search; a state is an event history replayed on fresh real objects; dedup on canonical state"},
        ],
        "checks": checks,
        "not_applicable": na,
        "notes": ("All checks rebuild the static sanitizer build of /repo's working tree incrementally (build/asan) before "
                  "running. exit 0 = held, exit 1 = VIOLATION line printed, exit 2 = internal error of the machinery. "
                  "Known findings live in /verif/known_findings.json."),
    }
    with open(os.path.join(VERIF, "MANIFEST.json"), "w") as f:
        json.dump(manifest, f, indent=1)
        f.write("\n")


CLAIMED_NA = {}

if __name__ == "__main__":
    main()
