#!/bin/bash
# try_all_seeds.sh — applies every seeded change in turn and runs the quick check of its property; summary in build/logs/seeds.txt
cd /verif
: > build/logs/seeds.txt
for d in seeded/*/; do
  id=$(basename $d); prop=${id%%-*}
  tools/try_seed.sh $id $prop 2>&1 | grep "^seed=" | tee -a build/logs/seeds.txt
done
