#!/usr/bin/env python3
"""Harvests well-formed XML literals from /repo/tests/**/*.cpp into /verif/corpus/seeds.jsonl (run once; output is committed).
Adjacent C++ string literals (incl. raw strings, QStringLiteral/QByteArrayLiteral wrappers and u"" / u8"" prefixes) are joined;
runs that start with '<' and parse with xml.dom.minidom are kept. Literals built with %1/variables are skipped."""
import glob, json, os, re, sys
from xml.dom import minidom

TOKEN = re.compile(r'''
    //[^\n]*                                   # line comment
  | /\*.*?\*/                                   # block comment
  | (?:u8|u|U|L)?R"(?P<d>[^()\\ ]{0,16})\((?P<raw>.*?)\)(?P=d)"    # raw string
  | (?:u8|u|U|L)?"(?P<str>(?:\\.|[^"\\\n])*)"   # ordinary string
  | '(?:\\.|[^'\\])'                            # char literal
  | (?P<other>[^\s])                            # anything else (one char)
''', re.S | re.X)

ESC = {'n': '\n', 't': '\t', '"': '"', "'": "'", '\\': '\\', 'r': '\r', '0': '\0'}

def unescape(s):
    out, i = [], 0
    while i < len(s):
        c = s[i]
        if c == '\\' and i + 1 < len(s):
            n = s[i + 1]
            if n in ESC:
                out.append(ESC[n]); i += 2; continue
            if n == 'x':
                m = re.match(r'[0-9a-fA-F]{1,2}', s[i + 2:])
                if m:
                    out.append(chr(int(m.group(0), 16))); i += 2 + len(m.group(0)); continue
            if n == 'u':
                m = re.match(r'[0-9a-fA-F]{4}', s[i + 2:])
                if m:
                    out.append(chr(int(m.group(0), 16))); i += 6; continue
            out.append(n); i += 2; continue
        out.append(c); i += 1
    return ''.join(out)

def runs(src):
    cur = []
    for m in TOKEN.finditer(src):
        if m.group('raw') is not None:
            cur.append(m.group('raw'))
        elif m.group('str') is not None:
            cur.append(unescape(m.group('str')))
        elif m.group('other') is not None:
            # wrapper macros / concatenation operators do not end a run
            if cur and m.group('other') in '()+':
                continue
            if cur:
                yield ''.join(cur)
                cur = []
    if cur:
        yield ''.join(cur)

def main():
    out, seen = [], set()
    for path in sorted(glob.glob('/repo/tests/**/*.cpp', recursive=True) + glob.glob('/repo/tests/**/*.h', recursive=True)):
        src = open(path, encoding='utf-8', errors='replace').read()
        # identifiers between literals (QStringLiteral etc.) are single "other" chars -> they break runs; strip the known wrappers first
        src = re.sub(r'\b(QStringLiteral|QByteArrayLiteral|QLatin1String|QByteArray|QString|u)\s*\(', '(', src)
        for r in runs(src):
            t = r.strip()
            if not t.startswith('<') or '%1' in t or len(t) > 20000:
                continue
            if t.startswith('<?xml'):
                t = t[t.index('?>') + 2:].strip()
            try:
                doc = minidom.parseString(t.encode('utf-8'))
            except Exception:
                continue
            if doc.documentElement.tagName.startswith('stream:') and 'xmlns:stream' not in t:
                continue
            if t in seen:
                continue
            seen.add(t)
            out.append({"src": os.path.relpath(path, '/repo/tests'), "xml": t})
    # hand-written seeds for nonzas and shapes the tests build from variables
    extra = open('/verif/corpus/extra_seeds.xml').read().split('\n---\n') if os.path.exists('/verif/corpus/extra_seeds.xml') else []
    for t in extra:
        t = t.strip()
        if t and t not in seen:
            minidom.parseString(t.encode('utf-8'))
            seen.add(t)
            out.append({"src": "extra_seeds.xml", "xml": t})
    with open('/verif/corpus/seeds.jsonl', 'w') as f:
        for o in out:
            f.write(json.dumps(o, ensure_ascii=False) + '\n')
    roots = {}
    for o in out:
        tag = re.match(r'<([A-Za-z0-9:_-]+)', o['xml']).group(1)
        roots[tag] = roots.get(tag, 0) + 1
    print(len(out), 'seeds;', sorted(roots.items(), key=lambda x: -x[1])[:25])

if __name__ == '__main__':
    main()
