#!/bin/bash
# run_all.sh <tier> [ids...] — runs the checks one after the other, logs exit code and wall time per property.
TIER=${1:-quick}; shift
IDS=${@:-C01 C02 C03 C04 C05 C06 C07 C08 C09 C10 C11 C12 C13 C14 C15 C16 C17 C18 C19 C20}
cd /verif
LOG=build/logs/run_all_$TIER.txt
for id in $IDS; do
  S=$(date +%s)
  python3 check.py $id --tier $TIER > build/logs/$id.$TIER.out 2> build/logs/$id.$TIER.err; RC=$?
  E=$(date +%s)
  echo "$id tier=$TIER rc=$RC wall=$((E-S))s $(grep -c '^VIOLATION' build/logs/$id.$TIER.out) violations" | tee -a $LOG
done
