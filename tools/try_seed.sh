#!/bin/bash
# try_seed.sh <seed-id> <PROP> [tier]  — applies /verif/seeded/<seed-id>/patch.diff to /repo, runs the check, reverts.
ID=$1; PROP=$2; TIER=${3:-quick}
cd /repo && git diff --quiet || { echo "/repo has local changes"; exit 2; }
git apply /verif/seeded/$ID/patch.diff || git apply --3way /verif/seeded/$ID/patch.diff || { echo APPLY-FAILED; git checkout -- .; exit 2; }
cd /verif
START=$(date +%s)
python3 check.py $PROP --tier $TIER > /tmp/try_$ID.out 2> /tmp/try_$ID.err; RC=$?
END=$(date +%s)
git -C /repo checkout -- . ; git -C /repo reset -q
grep -E "^VIOLATION|^KNOWN" /tmp/try_$ID.out | head -5
echo "seed=$ID prop=$PROP tier=$TIER rc=$RC wall=$((END-START))s"
# restore the evidence/replays of the unchanged tree
git -C /verif checkout -- evidence replays 2>/dev/null; git -C /verif clean -fdq replays
exit 0
