#!/bin/bash
# confirm_seed.sh <worktree> <seed-id>
# Confirms an agent-made seeded change independently (tests green with change, demo fails with / passes without),
# then stores it under /verif/seeded/<seed-id>/.
set -u
WT=$1; ID=$2
OUT=/verif/seeded/$ID
LOG=$(mktemp)
cd "$WT" || exit 2
git diff -- src > /tmp/seed_$ID.diff
[ -s /tmp/seed_$ID.diff ] || { echo "no change applied in $WT"; exit 2; }
echo "== build + ctest with change"
cmake --build _build -j12 > $LOG 2>&1 || { tail -20 $LOG; echo BUILD-FAILED; exit 1; }
ctest --test-dir _build -j8 --timeout 900 -E 'tst_qxmppiceconnection|tst_qxmppserver' 2>&1 | tail -3 | tee /tmp/seed_$ID.ctest
grep -q "100% tests passed" /tmp/seed_$ID.ctest || { echo TESTS-FAIL-WITH-CHANGE; exit 1; }
echo "== demo with change (must fail)"
bash out/demo/run_demo.sh "$WT" > /tmp/seed_$ID.with 2>&1; RC_WITH=$?
echo "rc=$RC_WITH"
echo "== demo without change (must pass)"
git checkout -- src
cmake --build _build -j12 > $LOG 2>&1
bash out/demo/run_demo.sh "$WT" > /tmp/seed_$ID.without 2>&1; RC_WITHOUT=$?
echo "rc=$RC_WITHOUT"
git apply /tmp/seed_$ID.diff
cmake --build _build -j12 > $LOG 2>&1
if [ $RC_WITH -eq 0 ] || [ $RC_WITHOUT -ne 0 ]; then echo "DEMO-NOT-DISCRIMINATING with=$RC_WITH without=$RC_WITHOUT"; tail -20 /tmp/seed_$ID.without; exit 1; fi
mkdir -p $OUT
cp /tmp/seed_$ID.diff $OUT/patch.diff
rm -rf $OUT/demo; cp -r out/demo $OUT/demo; rm -rf $OUT/demo/build $OUT/demo/*.o
cp out/meta.json $OUT/agent_meta.json 2>/dev/null
echo "CONFIRMED $ID (ctest: $(tail -2 /tmp/seed_$ID.ctest | head -1))"
