"""Driver for the pure-enumeration harnesses (finite input/schedule spaces, sharded over all cores)."""
import os
import time

from . import common as C


def enum_check(prop, harness, tier, level, rule, assumptions, args=(), witness=(), flavour="asan",
               timeout=None, extra_cov=None, post=None, nshards=None, key_transform=None):
    t0 = time.time()
    bdir = C.build([harness], flavour)
    binary = os.path.join(bdir, harness)
    res = C.run_sharded(binary, ["--tier", tier] + list(args), nshards=nshards, timeout=timeout)
    findings = []
    for shard, rc, err in res["crashed"]:
        if rc == 3 or "INTERNAL" in err:
            raise C.InternalError("shard %d of %s: %s" % (shard, harness, err[-1500:]))
        if res["timed_out"]:
            continue
        key = "%s/harness-process-died" % prop
        path = C.write_replay(prop, harness, key, "shard %d exited with rc=%s" % (shard, rc),
                              {"shard": shard, "stderr_tail": err})
        findings.append(dict(key=key, msg=err[-1500:], replay=path))
    # replay discipline: the first case of every distinct key must reproduce twice in fresh processes
    by_key = {}
    for v in res["violations"]:
        by_key.setdefault(v["key"], v)
    if key_transform:
        # maps fine-grained harness keys to the reported finding keys: {reported_key: violation (with 'orig_key')}
        by_key = key_transform(by_key)
    for key, v in sorted(by_key.items()):
        ok = 0
        okey = v.get("orig_key", key)
        for _ in range(2):
            vio, rc, err = C.run_replay(binary, v["case"], ["--tier", tier] + list(args))
            if any(x["key"] == okey for x in vio):
                ok += 1
        if ok != 2:
            raise C.InternalError("violation %s did not reproduce deterministically (%d/2): %s"
                                  % (key, ok, v.get("msg", "")[:500]))
        path = C.write_replay(prop, harness, key, v.get("msg", ""), v["case"])
        findings.append(dict(key=key, msg=v.get("msg", ""), replay=path))
    for w in witness:
        if res["counters"].get(w, 0) <= 0:
            raise C.InternalError("witness counter '%s' is zero: the run was vacuous" % w)
    if res["evaluations"] <= 0:
        raise C.InternalError("no evaluations")
    cov = {
        "evaluations": res["evaluations"],
        "distinct_nontrivial": res["nontrivial"],
        "rule": rule,
        "samples": res["samples"],
        "exhaustive": not res["timed_out"],
        "distinct_outcomes": len(res["outcomes"]),
        "counters": res["counters"],
        "violation_counts_by_key": res["violation_keys"],
        "shards": nshards or C.NPROC,
    }
    if extra_cov:
        cov.update(extra_cov)
    if post:
        post(res, cov, findings)
    if res["timed_out"]:
        cov["exhaustive"] = False
        cov["note"] = "deadline hit: counts are what was covered before the deadline"
    return C.conclude(prop, tier, level, cov, assumptions, t0, findings)


def enum_pass(prop, harness, tier, args, findings, witness=(), flavour="asan", label="pass"):
    """An additional sharded enumeration inside another check: runs it, applies the replay discipline to every distinct key,
    appends to `findings` and returns the merged result (evaluations, nontrivial, counters, ...)."""
    bdir = C.build([harness], flavour)
    binary = os.path.join(bdir, harness)
    full = ["--tier", tier] + list(args)
    res = C.run_sharded(binary, full)
    for shard, rc, err in res["crashed"]:
        raise C.InternalError("%s: shard %d of %s exited with rc=%s: %s" % (label, shard, harness, rc, err[-1500:]))
    by_key = {}
    for v in res["violations"]:
        by_key.setdefault(v["key"], v)
    for key, v in sorted(by_key.items()):
        ok = 0
        for _ in range(2):
            vio, rc, err = C.run_replay(binary, v["case"], full)
            if any(x["key"] == key for x in vio):
                ok += 1
        if ok != 2:
            raise C.InternalError("%s: violation %s did not reproduce deterministically (%d/2): %s" % (label, key, ok, v.get("msg", "")[:500]))
        case = dict(v["case"])
        case["harness"] = harness
        findings.append(dict(key=key, msg=v.get("msg", ""), replay=C.write_replay(prop, harness, key, v.get("msg", ""), case)))
    for w in witness:
        if res["counters"].get(w, 0) <= 0:
            raise C.InternalError("%s: witness counter '%s' is zero" % (label, w))
    if res["evaluations"] <= 0:
        raise C.InternalError("%s: no evaluations" % label)
    return res


def enum_replay(prop, harness, path, args=(), flavour="asan"):
    import json
    doc = json.load(open(path))
    bdir = C.build([harness], flavour)
    vio, rc, err = C.run_replay(os.path.join(bdir, harness), doc["case"], list(args))
    C.log(err[-6000:])
    if vio:
        for v in vio:
            print("VIOLATION property=%s replay=%s" % (prop, path))
            C.log(v["key"], v.get("msg", "")[:2000])
        return 1
    print("replay: no violation")
    return 0
