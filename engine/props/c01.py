import os

from .. import common as C
from ..enumcheck import enum_check, enum_replay

PROP = "C01"
HARNESS = "c01_codec"
RULE = ("(a) document engine: a registry of 78 codec entry points (message, presence, generic IQ, data form, stanza error, stream features, 40 IQ "
        "payload classes, 7 message payload elements, 31 nonzas incl. SASL/SASL2/bind2/FAST/stream management/STARTTLS) is applied to a "
        "corpus of 762 seed documents (XML literals harvested from tests/ plus hand-written nonza seeds); for every (seed, admitting codec): "
        "D1 = serialize(parse(seed)) must be admitted by the same codec and be a fixpoint of parse+serialize up to sibling order; then the "
        "k=1 mutation closure of D1 is enumerated: every attribute and leaf text is probed with 'zzz' -- sites that keep it are free-text "
        "sites and are driven through the text alphabet {markup that would inject an element, all five metacharacters, 2/3/4-byte UTF-8, "
        "inner double space, ']]>', 4096 chars} with a preservation oracle and a no-injection oracle (element skeleton unchanged); every "
        "child at depth 1-2 is deleted and duplicated (thorough: also every pair of siblings deleted) and the unrelated siblings must survive; "
        "a child of a corpus document that is lost in the round trip but survives once one sibling of another kind is removed was dropped "
        "because of that sibling (combinations of present/absent fields that occur in real documents). "
        "(b) object engine: integer fields over their whole range: parseInt<T> for all 8- and 16-bit values and 32/64-bit bounds incl. "
        "rejection just outside; a table of 40 integer-typed public fields (Jingle payload type / candidate / crypto / feedback / header "
        "extension / description, presence priority, result set, IBB, HTTP upload size, RPC fault code, stanza error code and max file "
        "size, external service port, file metadata, thumbnail, tune length/rating, pubsub node config and subscribe options, entity time "
        "offset) is set through the public setter over all values (8/16-bit types) or the boundary set of the declared type (every power-"
        "of-two edge from 2^7 to 2^64), serialised, parsed and read back through the getter; six date-time fields (message stamp, presence "
        "last interaction, entity time, file last-modified, external service expiry, error retry date) likewise over instants with and "
        "without milliseconds, with positive and negative zone offsets, around 1970 / 2038 / a leap day. non-trivial = admitted pairs and all mutants")
ASSUME = ["only sites the codec demonstrably stores as free text are driven through the text alphabet (probing), so nothing is demanded of enumerated/structured fields",
          "values outside the alphabets and more than one simultaneous edit are out of the bound",
          "XHTML-IM bodies are a documented raw write and appear only as corpus seeds"]


def run(tier):
    os.environ["VERIF_CORPUS"] = os.path.join(C.VERIF, "corpus", "seeds.jsonl")
    return enum_check(PROP, HARNESS, tier, "exploration", RULE, ASSUME, args=["--opt", "engine=c01", "--opt", "corpus=" + os.environ["VERIF_CORPUS"]],
                      witness=["admitted_pairs", "free_text_sites", "child_deletions", "child_duplications", "typed_field_checks", "integer_fields", "datetime_fields", "cooccurrence_probes"])


def replay(path):
    return enum_replay(PROP, HARNESS, path, args=["--opt", "engine=c01", "--opt", "corpus=" + os.path.join(C.VERIF, "corpus", "seeds.jsonl")])
