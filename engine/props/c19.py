from ..enumcheck import enum_check, enum_replay

PROP = "C19"
HARNESS = "c19_transfer"
RULE = ("case = (file size in {0, 1, 4095, 4096, 4097, 12289} (thorough: 13 sizes up to 40961 = 11 blocks) around the 4096-byte block size, content pattern in {zeros, counter bytes, 0xff}, "
        "with/without MD5 hash in the offer, one fault in {none, an extra block inserted after i with the rest renumbered (surplus bytes with consecutive numbers), drop block i, drop block i but acknowledge it (intermediary), duplicate i, "
        "flip a payload bit in i, flip the seq of i, flip the sid of i, forged copy of i with another sid, copy of i from another sender, "
        "forged close after i, data after close} for EVERY block index i); two real QXmppClients with QXmppTransferManager (in-band) over "
        "loopback TCP, the harness relays and stamps their stanzas; plus a scripted sender driving the real receiver through 65 577 one-byte "
        "blocks (sequence counter wrap). Oracle: receiver success => received bytes == sent bytes; a content-changing fault => the "
        "receiver does not report success (a payload bit flip without a hash in the offer is undetectable: don't-care); fault-free and "
        "benign-fault runs succeed on both sides with an exact copy; a sender that saw an error reply does not report success. "
        "non-trivial = cases with a fault")
ASSUME = ["the in-band block size of the library is fixed at 4096 bytes (no public setter), so block-boundary sizes are taken around 4096",
          "SOCKS5 bytestreams are not covered by this check",
          "one fault per transfer"]


def run(tier):
    return enum_check(PROP, HARNESS, tier, "fault_enumeration", RULE, ASSUME,
                      witness=["fault:none", "fault:drop-block", "fault:flip-seq-of-block", "fault:bit-flip-in-block", "fault:close-after-block", "long_runs"])


def replay(path):
    return enum_replay(PROP, HARNESS, path)
