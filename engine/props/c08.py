from ..enumcheck import enum_check, enum_replay

PROP = "C08"
HARNESS = "c08_iqreq"
RULE = ("case = (IQ type in {get, set, result, error, absent, 'bogus'}, payload in 53 elements: every query element the bundled managers "
        "know plus unknown / no child / two children, sender in {server domain, a contact's full JID, own bare JID, absent}, id in "
        "{'x1', empty}, extension set in {none, the five defaults, every bundled manager at once; thorough: + each of the 27 managers alone}); "
        "the complete product is run, each case on a fresh QXmppClient session over loopback TCP; the client's own start-up and follow-up "
        "requests are answered with errors until it is quiet; oracle: get/set -> exactly one result|error IQ with the same id addressed to "
        "the sender; result/error -> no IQ with that id is emitted. A violation in a multi-manager set is attributed to the single "
        "manager that reproduces it alone. non-trivial = typed get/set/result/error with a real payload")
ASSUME = ["OMEMO, GStreamer call manager, trust/ATM and file-sharing managers are not instantiated (need storages/network access managers)",
          "a reply without 'to' counts as addressed to the sender when the sender is the own account or server",
          "absent or unknown 'type' attributes carry no requirement"]


def aggregate(by_key):
    """C08/<manager>:<payload>:<type>:from=<class>:<problem> -> one key per (manager, payload, type, problem); the sender classes are
    folded into the key ('from=any' when all four senders fail)."""
    groups = {}
    for key, v in by_key.items():
        parts = key.split(":")
        if len(parts) != 5 or not parts[3].startswith("from="):
            groups.setdefault(key, ([], v))
            continue
        g = ":".join(parts[:3]) + ":%s:" + parts[4]
        groups.setdefault(g, ([], v))[0].append(parts[3][5:])
    out = {}
    for g, (froms, v) in groups.items():
        if not froms:
            out[g] = v
            continue
        fs = sorted(set(froms))
        label = "from=any" if len(fs) == 4 else "from=" + "+".join(fs)
        v = dict(v)
        v["orig_key"] = [k for k in by_key if by_key[k] is v or by_key[k].get("case") == v.get("case")][0]
        out[g % label] = v
    return out


def run(tier):
    return enum_check(PROP, HARNESS, tier, "exploration", RULE, ASSUME, witness=["replies=0", "replies=1", "extension_sets"],
                      key_transform=aggregate)


def replay(path):
    return enum_replay(PROP, HARNESS, path)
