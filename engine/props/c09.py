from ..explore import bfs_check, bfs_replay

PROP = "C09"
HARNESS = "c09_sm"
RULE = ("state = event history replayed on a fresh QXmppClient connected over loopback TCP to a scripted XEP-0198 server (login: SASL "
        "ANONYMOUS, bind, <enable resume/>); events: send(m1..m3), send(presence), send(nonza), server ack h in {0,1,2,3,5,9}, "
        "server <r/>, receive message/presence/iq-result/iq-get, a tracked request (sendIq) and the response that completes it (quick: in "
        "a second configuration of depth 5), connection drop, and after a drop: resumed with h in {0,1,2,3,5}, "
        "resume refused then new session with SM, new session without SM. After every step a reference model (numbered "
        "unacknowledged list, covered set, inbound counter) is compared with the wire (exact retransmission list and order, no "
        "covered stanza again, <a h/> and <resume h/> values) and with every send task (acknowledged iff covered, at most one "
        "report). States are de-duplicated on (model, private SM/negotiation fields, task flags).")
ASSUME = ["at most 4 tracked stanzas in flight plus the client's own initial presence and error replies",
          "counter wrap at 2^32 is out of reach",
          "unacknowledged stanzas on a replacing session WITHOUT stream management: the statement is silent; only 'never acknowledged, never twice' is checked",
          "first session is always negotiated with classic <enable/> (SASL2/bind2 inline style not covered in this check)"]


def run(tier):
    if tier == "thorough":
        cfgs = [dict(name="classic+tracked-iq", config={"iq": True}, depth=9, dev=2, deadline=2400)]
        return bfs_check(PROP, HARNESS, tier, cfgs, RULE, ASSUME, crosscheck_depth=3,
                         witness_required=["retransmitted", "resumed", "new_session_with_sm", "acks_from_client", "drops", "tracked_iq_answered"])
    cfgs = [dict(name="classic", config={"iq": False}, depth=7, dev=2, deadline=400),
            dict(name="classic+tracked-iq", config={"iq": True}, depth=5, dev=2, deadline=200)]
    return bfs_check(PROP, HARNESS, tier, cfgs, RULE, ASSUME,
                     witness_required=["retransmitted", "resumed", "new_session_with_sm", "acks_from_client", "drops", "tracked_iq_answered"])


def replay(path):
    return bfs_replay(PROP, HARNESS, path)
