import os

from .. import common as C
from ..enumcheck import enum_check, enum_pass, enum_replay

PROP = "C02"
HARNESS = "c01_codec"
RULE = ("every registered parser (84 entry points; the six parsers without a type check -- message, presence, generic IQ, data form, stanza "
        "error, stream features -- are additionally applied to EVERY element) x every document it admits out of the corpus (762 seeds) and "
        "its k=1 hostile mutation closure: delete / duplicate / swap each element, move it under a sibling, re-namespace it, empty it, "
        "replace leaf text by 'bogus', insert every child element this kind of parent has anywhere else in the corpus (grammar-aware "
        "transplant), drop each attribute or set it to '', '-1', a 21-digit number, 'abc', 'bogus', 4 KiB (thorough 64 KiB) of 'a', and "
        "wrap the document in 256 (thorough 1024) levels of nesting (once per distinct root element kind). Oracle per evaluation, on the ASan+UBSan build with one forked "
        "child per seed: no crash / sanitizer report, termination within the alarm, output well-formed, and serialize(parse(output)) "
        "the same document as output (byte-identical, or equal as namespace-aware infoset in stream context: attribute order and redundant "
        "xmlns declarations ignored, sibling order, names, namespaces, attribute values and text compared). non-trivial = evaluations on mutants")
ASSUME = ["nesting deeper than 1024 and documents above ~70 KiB are outside the bound",
          "ill-formed XML never reaches a parser (the stream layer buffers it)",
          "connected client: one client configuration (all bundled managers that need no external storage, no stream management, "
          "TLS disabled); the client's own start-up requests are left unanswered so that injected responses can hit them"]
RULE_CLIENT = (" CONNECTED CLIENT: the same seed + mutant closure is delivered, one element at a time with a quiescence barrier after each, to a "
               "real QXmppClient (all 27 bundled managers that need no external storage) logged in over loopback TCP: every mutant as a "
               "top-level stream element, and every mutant whose root is not a stanza additionally wrapped in <message/>, <iq type='set'/>, "
               "<iq type='result'/> (ids of the client's own pending requests) and <presence/> from a contact (quick: wrapped forms for "
               "structural mutants and for dropped / empty / 4 KiB attributes; thorough: all). Oracle: the forked ASan+UBSan child neither "
               "crashes nor reports nor exceeds its alarm, and everything the client writes back is well-formed; a client that closes the "
               "stream is re-established and the enumeration continues.")


def corpus():
    return os.path.join(C.VERIF, "corpus", "seeds.jsonl")


def client_pass(tier):
    def post(res, cov, findings):
        r2 = enum_pass(PROP, HARNESS, tier, ["--opt", "engine=c02c", "--opt", "corpus=" + corpus()], findings,
                       witness=("client_sessions", "injections_answered"), label="client pass")
        cov["client_injections"] = r2["evaluations"]
        cov["client_counters"] = r2["counters"]
        cov["client_violation_counts_by_key"] = r2["violation_keys"]
        cov["evaluations"] += r2["evaluations"]
        cov["distinct_nontrivial"] += r2["nontrivial"]
        if r2["timed_out"]:
            res["timed_out"] = True
        if tier == "thorough":
            cov["k2_closure"] = ("second edit (delete / duplicate / drop or empty an attribute) on top of every structural first edit: %d distinct "
                                 "k=2 mutants; capped at 2500 per seed, which cut %d of the seeds short (k=1 is complete for all)"
                                 % (res["counters"].get("k2_mutants", 0), res["counters"].get("k2_capped_seeds", 0)))
    return post


def run(tier):
    return enum_check(PROP, HARNESS, tier, "exploration", RULE + RULE_CLIENT, ASSUME, args=["--opt", "engine=c02", "--opt", "corpus=" + corpus()],
                      witness=["seeds_processed", "deep_nesting_cases"], post=client_pass(tier))


def replay(path):
    return enum_replay(PROP, HARNESS, path, args=["--opt", "engine=c02", "--opt", "corpus=" + corpus()])
