import os

from .. import common as C
from ..enumcheck import enum_check, enum_replay

PROP = "C02"
HARNESS = "c01_codec"
RULE = ("every registered parser (84 entry points; the six parsers without a type check -- message, presence, generic IQ, data form, stanza "
        "error, stream features -- are additionally applied to EVERY element) x every document it admits out of the corpus (751 seeds) and "
        "its k=1 hostile mutation closure: delete / duplicate / swap each element, move it under a sibling, re-namespace it, empty it, "
        "replace leaf text by 'bogus', insert every child element this kind of parent has anywhere else in the corpus (grammar-aware "
        "transplant), drop each attribute or set it to '', '-1', a 21-digit number, 'abc', 'bogus', 4 KiB (thorough 64 KiB) of 'a', and "
        "wrap the document in 256 (thorough 1024) levels of nesting (once per distinct root element kind). Oracle per evaluation, on the ASan+UBSan build with one forked "
        "child per seed: no crash / sanitizer report, termination within the alarm, output well-formed, and serialize(parse(output)) "
        "the same document as output (byte-identical, or equal as namespace-aware infoset in stream context: attribute order and redundant "
        "xmlns declarations ignored, sibling order, names, namespaces, attribute values and text compared). non-trivial = evaluations on mutants")
ASSUME = ["nesting deeper than 1024 and documents above ~70 KiB are outside the bound",
          "ill-formed XML never reaches a parser (the stream layer buffers it)",
          "the connected-client injection part of the design (every mutant as a stream element) is not included in this check"]


def run(tier):
    corpus = os.path.join(C.VERIF, "corpus", "seeds.jsonl")
    return enum_check(PROP, HARNESS, tier, "exploration", RULE, ASSUME, args=["--opt", "engine=c02", "--opt", "corpus=" + corpus],
                      witness=["seeds_processed", "deep_nesting_cases"])


def replay(path):
    return enum_replay(PROP, HARNESS, path, args=["--opt", "engine=c02", "--opt", "corpus=" + os.path.join(C.VERIF, "corpus", "seeds.jsonl")])
