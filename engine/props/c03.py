from ..enumcheck import enum_check, enum_replay

PROP = "C03"
HARNESS = "c03_framing"
RULE = ("case = (stream from a 13-stream corpus of headers x bodies, set of cut positions); enumerated: the unsplit "
        "reference, every 2-way split, the byte-wise split, and every 3-way split (quick: streams <= 230 bytes; thorough: "
        "all streams) delivered through a real loopback TCP socket into XmppSocket with a quiescence barrier after each "
        "chunk; non-trivial = at least one cut inside a tag, attribute value, entity or multi-byte character (not "
        "between top-level items); oracle = event sequence (stream-open attributes, canonical stanzas, close) equals "
        "the unsplit delivery")
ASSUME = ["whitespace-ping emissions (null element) are not compared: the property speaks of open/stanza/close events",
          "4-or-more-way splits other than byte-wise are not enumerated",
          "a single write of < 64 KiB on loopback followed by the barrier arrives in one read (checked: reference is run twice)",
          "streams up to ~450 bytes"]


def run(tier):
    args = [] if tier == "thorough" else ["--opt", "three=230"]
    return enum_check(PROP, HARNESS, tier, "exploration", RULE, ASSUME, args=args,
                      witness=["cut:inside-utf8-char", "cut:inside-entity", "cut:inside-header-attr-value", "bytewise",
                               "streams_with_all_3way"])


def replay(path):
    return enum_replay(PROP, HARNESS, path)
