from ..enumcheck import enum_check, enum_replay

PROP = "C20"
HARNESS = "c20_caps"
RULE = ("(a) case = info set = (subset of <= I of 7 identities incl. empty lang/name, non-ASCII names and names that differ only beyond the "
        "BMP; subset of <= F of 7 features incl. upper-case and astral ones; one of 5 extension forms: none, FORM_TYPE only, single-valued "
        "fields, a multi-valued field, non-ASCII field names) with quick I=2,F=3 / thorough I=3,F=4; for every info set EVERY permutation "
        "of identities and of features, every rotation of the form fields and reversed field/value order is hashed with "
        "QXmppDiscoveryIq::verificationString() and must equal an independent implementation of XEP-0115 5.1 (UTF-8, i;octet order, "
        "de-duplicated features); repeating a feature must not change the hash; different info sets must not collide. (b) for every "
        "subset of six feature-bearing managers (64) x name/node/form variants the client logs in over loopback TCP; the <c ver/> of the "
        "initial presence and of setClientPresence() is compared with the independent hash of the client's own disco#info replies "
        "(node#ver and bare); then the capabilities change at run time (a manager is added or the software-info form replaced) and a COPY "
        "of the stored presence is re-announced: its <c ver/> must have changed and match the new disco#info reply. non-trivial = info sets with >= 2 elements and every (b) comparison")
ASSUME = ["one extension form per info set (the class holds a single form)", "alphabet values stand for their lexical classes (ASCII, upper case, BMP above the surrogates, astral)"]


def run(tier):
    return enum_check(PROP, HARNESS, tier, "exploration", RULE, ASSUME, witness=["identity_sets", "client_configurations", "presence_vs_disco_compared", "runtime_capability_changes"])


def replay(path):
    return enum_replay(PROP, HARNESS, path)
