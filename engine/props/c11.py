from ..enumcheck import enum_check, enum_replay

PROP = "C11"
HARNESS = "c11_carbons"
RULE = ("case = (carbon manager generation in {v1, v2, both}, outer 'from' in 16 sender strings: own bare, own full, other own resource, "
        "case variants, leading/trailing space, own bare as prefix of a longer domain, prefixed local part, look-alike domain, domain "
        "only, empty, absent, contact bare/full, own bare with empty resource; wrapper in {sent, received}; inner message in {contact->me, "
        "me->contact, inner that itself contains a carbon wrapper}; structure in {well-formed, extra outer body, no <forwarded/>, wrong "
        "forwarded namespace, no inner message, two inner messages, both wrappers, wrong carbon namespace}); complete product, each case "
        "injected into a fresh logged-in client over loopback TCP; oracle: the inner message is presented (client.messageReceived / "
        "v1 signals) iff from == own bare JID and the wrapper is well-formed; presented message == independent parse of the inner "
        "element with the forwarded flag; nothing of a nested wrapper is presented; case variants of the own JID and ambiguous "
        "structures are don't-cares. non-trivial = cases whose sender is not the own bare JID")
ASSUME = ["own JID is user@example.org/r", "messages are observed through QXmppClient::messageReceived and the v1 manager's signals"]


def run(tier):
    return enum_check(PROP, HARNESS, tier, "exploration", RULE, ASSUME, witness=["presented=0", "presented=1"])


def replay(path):
    return enum_replay(PROP, HARNESS, path)
