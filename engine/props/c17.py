from ..enumcheck import enum_check, enum_replay

PROP = "C17"
HARNESS = "c17_sce"
RULE = ("case = subset of the 40 known message extensions (12 public: carbon-private, 4 hints, stanza-id, origin-id, MIX user, EME, "
        "fallback marker, extended addresses, e2ee fallback body; 28 sensitive: body, subject, thread, OOB, XHTML, chat states, delay, "
        "receipts, attention, MUC invitation, BoB, correction, markers, JMI, attach-to, spoiler, MIX invitation, trust message, "
        "reactions, file sharing, file sources, reply, call invite), at most one per exclusive group, each with distinctive token "
        "values; every subset of size <= k (quick k=3, thorough k=4) plus two all-set variants is built, serialised in public, "
        "sensitive and combined mode and recombined the way the OMEMO manager does (parse public, clear fallback markers, "
        "parseExtensions sensitive); oracles: (1) no sensitive token and only whitelisted element kinds in the public part, "
        "(2) multiset partition children(combined)+fallback body+fallback markers = children(public)+children(sensitive), "
        "(3) recombined message equals the original through combined serialisation and unknown-extension list. "
        "non-trivial = subsets with >= 2 extensions")
ASSUME = ["messages are built by parsing a combined-mode document containing the chosen extension elements (plus setters for the fallback body)",
          "unknown/custom extensions are outside the quantifier ('known extensions')",
          "the OMEMO element itself is not built in this configuration (BUILD_OMEMO off)"]


def run(tier):
    return enum_check(PROP, HARNESS, tier, "exploration", RULE, ASSUME, witness=["allset", "extensions_in_table"])


def replay(path):
    return enum_replay(PROP, HARNESS, path)
