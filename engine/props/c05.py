from ..enumcheck import enum_check, enum_replay

PROP = "C05"
HARNESS = "c05_mech"
RULE = ("case = (ordered list of offered mechanism names over 13 names incl. a truncated one, a known name with a -PLUS suffix, a wrong-case one and an X- mechanism; "
        "disabled set = any subset of {PLAIN, SCRAM-SHA-1, DIGEST-MD5, ANONYMOUS, HT-SHA-256-NONE}; preferred in {none, 8 real names, "
        "1 unknown}; password present/absent; token in {none, HT-SHA-256-NONE, HT-SHA-512-NONE}; protocol in {SASL, SASL2, SASL2 with "
        "FAST feature carrying the HT names, the same with FAST switched off in the client}); offered lists: every subset of size <= P in "
        "every permutation (quick P=3, thorough P=4), larger subsets in ascending/descending/rotated order (quick: every 7th subset and "
        "the near-full ones; thorough: all 4096 subsets); all other dimensions complete. Each case runs the real "
        "SaslManager/Sasl2Manager::authenticate with a recording socket; oracle = reference function from the property statement "
        "(SCRAM-SHA-512 vs SCRAM-SHA3-512 is a don't-care). non-trivial = at least two names offered and at least one candidate")
ASSUME = ["X- mechanisms never have credentials in the enumeration, so their rank is never exercised (only that they are not chosen)",
          "relative order of SCRAM-SHA-512 and SCRAM-SHA3-512 is not decided by the statement",
          "runs on the non-sanitized -O2 build of the same sources (pure function of four sets; C06 exercises the same code under ASan)"]


def run(tier):
    return enum_check(PROP, HARNESS, tier, "exploration", RULE, ASSUME, flavour="fast",
                      witness=["chosen:(mismatch)", "chosen:PLAIN", "chosen:HT-SHA-256-NONE", "chosen:ANONYMOUS", "chosen:SCRAM-SHA3-512",
                               "chosen:DIGEST-MD5"])


def replay(path):
    return enum_replay(PROP, HARNESS, path, flavour="fast")
