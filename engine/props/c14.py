import binascii
import hashlib
import hmac
import zlib

from .. import common as C
from ..enumcheck import enum_check, enum_replay

PROP = "C14"
HARNESS = "c14_stun"
RULE = ("(i) round trip decode(encode(m)) for every single attribute assignment (108 assignments over 24 attribute groups) x 6 message "
        "types, every pair of assignments from different groups, 10 all-groups-set variants, each x {no key, 20-byte key} x "
        "{fingerprint on, off}; MESSAGE-INTEGRITY recomputed with Qt's QMessageAuthenticationCode over the RFC 5389 "
        "pseudo-header form and FINGERPRINT with a bitwise CRC-32, for every key length 1..N (quick N=100, thorough 300) on the "
        "representative messages, plus the public HMAC helper for every key length 0..N x 6 text lengths and 20 binary keys (0x00 at start/middle/end, all-zero, all-0xff) (40 vectors re-checked "
        "with Python hmac/zlib); (ii) for each representative authenticated message (quick 6, thorough 12; with and without "
        "fingerprint): every single-bit flip up to the end of MESSAGE-INTEGRITY, every truncation (with and without repaired "
        "length), every byte substituted by 00/7f/80/ff, all 65536 values of every 16-bit type/length field, 4 wrong keys; "
        "oracle: a buffer differing from the authenticated original in protected bytes must be rejected under the key; "
        "non-trivial = round trips with >= 1 attribute and tamper cases whose mutation lies in protected bytes; ASan/UBSan "
        "as crash oracle on every decode")
ASSUME = ["attribute values limited to the listed alphabet (addresses v4/v6, strings of length 0..9, data 0..5 and 1200 bytes, integer bounds)",
          "ICE-CONTROLLING together with ICE-CONTROLLED in one message is not enumerated (mutually exclusive in RFC 5245)",
          "REQUESTED-TRANSPORT is compared through re-encoding only (no defined default value)",
          "HMAC collisions are not considered"]


def post(res, cov, findings):
    # bind Qt's HMAC (the in-harness oracle) to Python's hmac/zlib on the exported vectors
    n = 0
    for s in res["samples"]:
        if isinstance(s, dict) and "hmac_vectors_for_python" in s:
            for v in s["hmac_vectors_for_python"]:
                key, text = binascii.unhexlify(v["key"]), binascii.unhexlify(v["text"])
                mac = hmac.new(key, text, hashlib.sha1).hexdigest()
                if mac != v["mac"] or (zlib.crc32(text) & 0xffffffff) != int(v["crc"]):
                    path = C.write_replay(PROP, HARNESS, "C14/python-oracle-disagrees", "python hmac/zlib disagrees", {"vector": v})
                    findings.append(dict(key="C14/hmac-or-crc-differs-from-python", msg=str(v), replay=path))
                n += 1
    cov["python_crosschecked_vectors"] = n
    if n == 0:
        raise C.InternalError("no vectors for the python cross-check")


def run(tier):
    return enum_check(PROP, HARNESS, tier, "exploration", RULE, ASSUME,
                      witness=["bitflips", "truncations", "u16_sweeps", "keylen_sweep", "allset", "tamper_controls_accepted",
                               "tamper_rejected_total", "wrong_key_checks", "binary_keys"], post=post)


def replay(path):
    return enum_replay(PROP, HARNESS, path)
