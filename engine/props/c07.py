import json

from ..enumcheck import enum_pass, enum_replay
from ..explore import bfs_check, bfs_replay

PROP = "C07"
HARNESS = "c07_iq"
RULE = ("state = event history replayed on a fresh QXmppClient over loopback TCP; three request slots (to a contact's full JID, to the own "
        "account (no 'to'), to a service domain); events: send(ri), reply(ri, kind in {result, error, get-with-same-id}, from in 5-7 "
        "sender classes per slot: exact addressee, bare/other-resource variants, stranger, absent, own bare/full/domain), connection "
        "drop, reconnect resumed / new session with SM / without SM, disconnectFromServer(), destroy client; two configurations "
        "(resumable stream management, no stream management). Oracle after every step: completion count <= 1; a must-complete reply "
        "completes with exactly its value; a reply from any other sender (or a request with the same id) neither completes nor cancels; "
        "after a non-resumable end of session / new session / destruction every outstanding request is complete with a send error; "
        "absent 'from' on an addressed request and own-full/own-domain on an own-account request are don't-cares.")
RULE += (" MANAGER SWEEP (harness c07_mgr): each of the 77 task-returning request APIs of the bundled managers (blocking, disco, time, external "
         "services, MAM, MIX, moved, pubsub/PEP, roster, upload, location, tune, vCard, account migration) is called on a fresh logged-in "
         "client with all managers installed; every request IQ the client writes is answered, round by round, according to every script of "
         "length <= 2 (thorough 3) over {empty result, error, result with an unexpected payload, result echoing the request payload, "
         "silence} (MAM also: <fin/> after 0 / 1 plain / 1 encrypted / 2 mixed result messages), with and without a forged copy of the first "
         "reply from a stranger sent first, with and without an encryption extension installed; a request still pending at the end of the "
         "script meets a non-resumable connection loss; every API is also called once before the client ever connected (must complete with "
         "an error at once) followed by the same case on a fresh session. Oracle: the returned task completes exactly once; the forged reply completes nothing; "
         "the process neither crashes nor hangs.")
ASSUME = ["three outstanding requests at most; ids r1..r3 chosen by the harness",
          "sends are issued only while a session is open",
          "manager sweep: one call per API with fixed plausible arguments; the encryption extension is a pass-through stub; "
          "signal-based request APIs (registration, version, MUC, archive, bookmarks) return no task and are outside the sweep"]
WIT = ["completed_by_reply", "wrong_sender_replies", "cancelled_by_drop", "retained_over_drop", "resumed", "new_session", "destroyed"]


def manager_sweep(tier):
    def extra(findings, cov):
        r = enum_pass(PROP, "c07_mgr", tier, [], findings, label="manager sweep",
                      witness=("completed_by_reply_or_send", "completed_by_connection_loss", "mam_page_cases", "offline_first_cases"))
        cov["manager_sweep_cases"] = r["evaluations"]
        cov["manager_sweep_counters"] = r["counters"]
        cov["manager_sweep_outcomes"] = len(r["outcomes"])
        cov["manager_sweep_violation_counts_by_key"] = r["violation_keys"]
        cov["evaluations"] += r["evaluations"]
        if r["timed_out"]:
            cov["exhaustive"] = False
    return extra


def run(tier):
    if tier == "thorough":
        cfgs = [dict(name="sm-resumable", config={"sm": True, "resumable": True}, depth=9, dev=3, deadline=1800),
                dict(name="no-sm", config={"sm": False}, depth=9, dev=3, deadline=1200)]
        return bfs_check(PROP, HARNESS, tier, cfgs, RULE, ASSUME, witness_required=WIT, crosscheck_depth=3, extra_pass=manager_sweep(tier))
    cfgs = [dict(name="sm-resumable", config={"sm": True, "resumable": True}, depth=5, dev=2, deadline=300),
            dict(name="no-sm", config={"sm": False}, depth=4, dev=2, deadline=200)]
    return bfs_check(PROP, HARNESS, tier, cfgs, RULE, ASSUME, witness_required=WIT, extra_pass=manager_sweep(tier))


def replay(path):
    if json.load(open(path)).get("harness") == "c07_mgr":
        return enum_replay(PROP, "c07_mgr", path)
    return bfs_replay(PROP, HARNESS, path)
