from ..explore import bfs_check, bfs_replay

PROP = "C07"
HARNESS = "c07_iq"
RULE = ("state = event history replayed on a fresh QXmppClient over loopback TCP; three request slots (to a contact's full JID, to the own "
        "account (no 'to'), to a service domain); events: send(ri), reply(ri, kind in {result, error, get-with-same-id}, from in 5-7 "
        "sender classes per slot: exact addressee, bare/other-resource variants, stranger, absent, own bare/full/domain), connection "
        "drop, reconnect resumed / new session with SM / without SM, disconnectFromServer(), destroy client; two configurations "
        "(resumable stream management, no stream management). Oracle after every step: completion count <= 1; a must-complete reply "
        "completes with exactly its value; a reply from any other sender (or a request with the same id) neither completes nor cancels; "
        "after a non-resumable end of session / new session / destruction every outstanding request is complete with a send error; "
        "absent 'from' on an addressed request and own-full/own-domain on an own-account request are don't-cares.")
ASSUME = ["three outstanding requests at most; ids r1..r3 chosen by the harness",
          "sends are issued only while a session is open",
          "manager-level request APIs are not part of this BFS (generic IQ requests through QXmppClient::sendIq)"]
WIT = ["completed_by_reply", "wrong_sender_replies", "cancelled_by_drop", "retained_over_drop", "resumed", "new_session", "destroyed"]


def run(tier):
    if tier == "thorough":
        cfgs = [dict(name="sm-resumable", config={"sm": True, "resumable": True}, depth=7, dev=3, deadline=1200),
                dict(name="no-sm", config={"sm": False}, depth=7, dev=3, deadline=900)]
        return bfs_check(PROP, HARNESS, tier, cfgs, RULE, ASSUME, witness_required=WIT, crosscheck_depth=3)
    cfgs = [dict(name="sm-resumable", config={"sm": True, "resumable": True}, depth=5, dev=2, deadline=300),
            dict(name="no-sm", config={"sm": False}, depth=4, dev=2, deadline=200)]
    return bfs_check(PROP, HARNESS, tier, cfgs, RULE, ASSUME, witness_required=WIT)


def replay(path):
    return bfs_replay(PROP, HARNESS, path)
