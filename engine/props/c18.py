from ..explore import bfs_check, bfs_replay

PROP = "C18"
HARNESS = "c18_atm"
RULE = ("state = event history replayed on a fresh QXmppClient with QXmppAtmManager and in-memory trust storages (every task is ready "
        "immediately, one event = one synchronous call); universe: accounts {own, alice, bob} with two keys each, one encryption namespace, "
        "both security policies; events: manual authenticate/distrust of each of the 6 keys (12), trust message from {another own device, "
        "alice's device, bob's device} carrying one of 15 contents (one owner: trust k1 / distrust k1 / trust k2 + distrust k1, for each "
        "of the 3 owners; two owners in every ordered pair), and a trust message from the receiving device itself. After every step the "
        "trust level of all 6 keys (read through QXmppTrustManager::trustLevel) and the postponed-decision table (read through the storage "
        "API) are compared with a reference model of XEP-0450; states are de-duplicated on (trust map, postponed table).")
ASSUME = ["sender device keys are fixed per account (own.k2, alice.k1, bob.k1); a key id is never shared by two owners",
          "when postponed decisions are applied, identical decisions about the same key held for other sender keys are dropped too (XEP-0450 bookkeeping mirrored in the reference model)",
          "TOAKAFA's distrust of automatically trusted keys is not reachable (no event creates automatically trusted keys)"]
WIT = ["manual_decisions", "trust_messages", "postponed"]


def run(tier):
    depth = 6 if tier == "thorough" else 3
    cfgs = [dict(name="no-policy", config={"toakafa": False}, depth=depth, dev=9, deadline=2400),
            dict(name="toakafa", config={"toakafa": True}, depth=depth, dev=9, deadline=2400)]
    return bfs_check(PROP, HARNESS, tier, cfgs, RULE, ASSUME, witness_required=WIT)


def replay(path):
    return bfs_replay(PROP, HARNESS, path)
