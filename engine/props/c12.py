from ..explore import bfs_check, bfs_replay

PROP = "C12"
HARNESS = "c12_roster"
RULE = ("state = event history replayed on a fresh QXmppClient with the roster manager over loopback TCP (resumable stream management); "
        "events: full roster result in 4 variants (when the client's roster request is outstanding), roster push {set a (2 variants), set b, "
        "remove a, remove c} from {absent, own bare, own full, server domain, stranger, look-alike domain, a roster contact}, "
        "available/unavailable presence from a/r1, a/r2, b/r1, connection drop, reconnect resumed / new session with SM / without SM, "
        "disconnectFromServer(). After every step: getRosterBareJids()/getRosterEntry() equal a reference map; item signals equal the "
        "reference delta; an unauthorised push changes nothing, is not acknowledged with a result and raises no signal; an authorised "
        "push is acknowledged exactly once; a non-resumed session starts with an empty view and requests the roster; "
        "getResources()/getAllPresencesForBareJid() equal the reference presence table.")
ASSUME = ["pushes from the server's bare domain are a don't-care: whichever way the implementation decides, it is then held to it (RFC 6121 vs. 'own account or server')",
          "between a non-resumable loss and the next session nothing is demanded of the view",
          "three contacts, two resources"]
WIT = ["roster_results", "authorised_pushes", "unauthorised_pushes", "presences", "drops", "resumed", "new_sessions", "roster_requests"]


def run(tier):
    if tier == "thorough":
        cfgs = [dict(name="sm-resumable", config={}, depth=7, dev=3, deadline=2400)]
        return bfs_check(PROP, HARNESS, tier, cfgs, RULE, ASSUME, witness_required=WIT, crosscheck_depth=2)
    cfgs = [dict(name="sm-resumable", config={}, depth=4, dev=2, deadline=300)]
    return bfs_check(PROP, HARNESS, tier, cfgs, RULE, ASSUME, witness_required=WIT)


def replay(path):
    return bfs_replay(PROP, HARNESS, path)
