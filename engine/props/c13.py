from ..enumcheck import enum_check, enum_replay

PROP = "C13"
HARNESS = "c13_task"
RULE = ("case = (result type in {void, QString, unique_ptr<int>, instance-counted}, sequence of operations over "
        "{copy promise, obtain task, copy task, then (plain | capturing its own task | re-entering: drops all task copies "
        "and finishes another promise), finish, destroy context, drop a promise copy, drop a task copy}); every "
        "sequence of length 1..L that respects the API preconditions (one finish, one then - plus optionally a second, self-capturing then() "
        "once the first has consumed the value, which may or may not run but must be released -, then() only on a live "
        "context) is executed on fresh real objects (quick L=7, thorough L=9); non-trivial = both a continuation was "
        "attached and the promise was finished; oracle = reference model of invocation count (1 iff attached, finished "
        "and context alive at the later of the two), received value, instance counter back to zero after all "
        "handles are dropped, ASan/UBSan clean")
ASSUME = ["at most two promise copies and two task copies at a time",
          "a second then() on the same task and then() with an already dead context are API misuse and not enumerated",
          "a self-capturing continuation on a promise that is never finished is a user-made cycle and excluded from the leak oracle",
          "single-threaded use only (the classes are documented as not thread-safe)"]


def run(tier):
    L = "11" if tier == "thorough" else "7"
    return enum_check(PROP, HARNESS, tier, "exploration", RULE, ASSUME, args=["--opt", "len=" + L],
                      witness=["invoked=0", "invoked=1", "excluded_user_cycles", "late_continuations"])


def replay(path):
    return enum_replay(PROP, HARNESS, path)
