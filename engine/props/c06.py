import multiprocessing

from .. import common as C
from ..enumcheck import enum_check, enum_replay
from ..oracles import sasl

PROP = "C06"
HARNESS = "c06_sasl"
RULE = ("(a) responses: the real QXmppSaslClient objects run with a pinned client nonce over mechanism in {SCRAM-SHA-1/-256/-512/SHA3-512} x 7 "
        "user names (ASCII, ',' and '=', non-ASCII, space, 64 chars, quote/backslash) x 6 passwords (ASCII, metacharacters, Cyrillic, astral, 1 "
        "and 200 chars) x 3 salts (1 byte, 16 bytes with 0x00/0xff, 64 bytes) x iterations {1, 2, 4096} x 5 server nonce extensions (incl. the character sequences '=3D' / '=2C', which are escapes only in user names); "
        "DIGEST-MD5 over the same credentials x 3 realms (absent, plain, with quote/backslash) x 2 nonces; PLAIN; HT-SHA-256/512/SHA3-512 "
        "over 3 tokens; every emitted message is recomputed by an independent Python oracle (hashlib/hmac, written from RFC 5802/7677, "
        "2831, 4616, XEP-0484; DIGEST-MD5 compared field by field through a tolerant RFC 2831 reader). (b) refusals: every sequence of "
        "server messages up to depth 3 (quick) / 5 (thorough) over a 20-message alphabet (honest/invalid server-first, right/wrong/"
        "truncated/empty/missing server signature, <success/> empty or carrying a right/wrong server-final, extra challenge, failure) is "
        "played against the real SaslManager and Sasl2Manager for SCRAM-SHA-1 and -256; an independent SCRAM server model decides: "
        "Success only after a correct server signature, every invalid message ends in an authentication error and no proof is sent "
        "after it; 6 DIGEST-MD5 rspauth variants. non-trivial = all cases (every case carries credentials or a hostile message)")
ASSUME = ["SASLprep itself is out of scope (the statement speaks of already-normalised strings)",
          "quick runs 4096 iterations only along the axes through the plain user / plain password",
          "channel binding variants are not supported by the library and not enumerated",
          "an unextended server nonce (equal to the client's) is a don't-care"]


def post(res, cov, findings):
    vectors = [o for o in res.get("other", []) if o.get("type") == "vector"]
    if len(vectors) < 100:
        raise C.InternalError("only %d vectors reached the python oracle" % len(vectors))
    with multiprocessing.Pool(C.NPROC) as pool:
        verdicts = pool.map(sasl.check, vectors, chunksize=32)
    seen = {}
    kinds = {}
    for v, r in zip(vectors, verdicts):
        kinds[v.get("kind")] = kinds.get(v.get("kind"), 0) + 1
        if r and r[0] not in seen:
            seen[r[0]] = (v, r[1])
    for key, (v, msg) in sorted(seen.items()):
        case = dict(v)
        case["part"] = "vector"
        path = C.write_replay(PROP, HARNESS, key, msg, case)
        findings.append(dict(key=key, msg=msg, replay=path))
    cov["python_checked_vectors"] = len(vectors)
    cov["python_checked_by_kind"] = kinds
    cov["samples"] = (cov.get("samples") or []) + [{k: vectors[0][k] for k in ("kind", "mech", "user", "salt", "iterations", "client_final") if k in vectors[0]}]


def run(tier):
    return enum_check(PROP, HARNESS, tier, "exploration", RULE, ASSUME, post=post,
                      witness=["scram_vectors", "digest_vectors", "plain_vectors", "ht_vectors", "client_final_correct", "outcome_error", "outcome_success", "digest_refusal_cases"])


def replay(path):
    import json
    doc = json.load(open(path))
    if doc["case"].get("part") == "vector":
        # re-run the real client on this case and let the python oracle judge the fresh output
        import os
        bdir = C.build([HARNESS])
        import subprocess
        p = subprocess.run([os.path.join(bdir, HARNESS), "--replay", json.dumps(doc["case"])], stdout=subprocess.PIPE, env=C.harness_env())
        bad = False
        for line in p.stdout.decode().splitlines():
            if line.startswith("{") and '"vector"' in line:
                r = sasl.check(json.loads(line))
                if r:
                    C.log("violation", r[0], r[1])
                    bad = True
        if bad:
            print("VIOLATION property=%s replay=%s" % (PROP, path))
            return 1
        print("replay: no violation")
        return 0
    return enum_replay(PROP, HARNESS, path)
