from .. import common as C
from ..explore import bfs_check, bfs_replay

PROP = "C04"
HARNESS = "c04_tls"
RULE = ("state = server script (event history) replayed against a fresh QXmppClient configured with TLSRequired over loopback TCP, the "
        "server side being able to complete a real TLS handshake (self-signed certificate); events: 3 stream header variants "
        "(with/without version and id), 15 feature sets (starttls absent/offered/required x SASL / SASL2+bind2+FAST / legacy auth / "
        "bind+sm / empty), <proceed/> followed by a real handshake, TLS <failure/>, legacy-auth field offer and empty IQ result with the "
        "last seen id, IQ gets (version, disco#info, unknown), SASL success/challenge, SM enabled/<r/>, message, presence subscribe, "
        "see-other-host, and - once a connection is encrypted and the authentication exchange has begun - loss of that connection followed "
        "by a reconnect to a server that does not encrypt yet (the script then continues in clear); client configurations: all mechanisms on, SASL2 off, legacy auth off, FAST token present, legacy only, legacy "
        "plain. Oracle in every state: every byte received by the server while the link is unencrypted is an XML declaration, a stream "
        "header, <starttls/> or </stream:stream>; after <proceed/> the next bytes are a TLS ClientHello; no planted secret (password, "
        "SASL PLAIN response, legacy digest, FAST token, resource, SCRAM client-first) occurs in them; if TLS cannot be negotiated "
        "(features without starttls, TLS failure) the client disconnects; no session is reported unencrypted.")
ASSUME = ["scripts start with exactly one stream header (nothing is parseable before it)",
          "on the encrypted stream only one friendly step is driven (it witnesses that credentials are then sent encrypted); the search continues through a connection loss + reconnect, at most once per history",
          "direct TLS (LegacySSL) and TLSEnabled/TLSDisabled modes are outside this property"]
WIT = ["tls_completed", "credentials_sent_encrypted", "client_gave_up", "reconnected_after_tls"]


def run(tier):
    C.ensure_tls_material()
    if tier == "thorough":
        cfgs = [dict(name="cfg%d" % i, config={"cfg": i}, depth=9, dev=6, deadline=600) for i in range(6)]
        return bfs_check(PROP, HARNESS, tier, cfgs, RULE, ASSUME, witness_required=WIT)
    cfgs = [dict(name="cfg%d" % i, config={"cfg": i}, depth=6, dev=4, deadline=200) for i in range(6)]
    return bfs_check(PROP, HARNESS, tier, cfgs, RULE, ASSUME, witness_required=WIT)


def replay(path):
    C.ensure_tls_material()
    return bfs_replay(PROP, HARNESS, path)
