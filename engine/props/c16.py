from ..explore import bfs_check, bfs_replay

PROP = "C16"
HARNESS = "c16_server"
RULE = ("state = attacker script (event history) replayed against a fresh real QXmppServer on loopback with a victim 'bob' logged in over a raw "
        "TCP socket; attacker events: stream open (right/wrong domain), SASL PLAIN auth with right/wrong/other-user/malformed credentials, "
        "DIGEST-MD5 auth + right/wrong/other-user response + final response, ANONYMOUS/unknown mechanism, abort, response without auth, "
        "SASL2 authenticate with inline bind, bind, session, message/presence-subscribe/iq to bob with 'from' in {absent, own bare, own "
        "full, bob bare, bob full, foreign, other local user}, iq to the server, stream restart; in the 'controlled' configuration the "
        "password checker's replies are held and completed by explicit events in any order. Oracle in every state (reference: "
        "authenticated_as = u only after an exchange for exactly u with the right secret whose own reply was approved): bob receives a "
        "stanza only from an authenticated and bound connection and stamped with that user's own bare/full JID; no <success/>, bind "
        "result or IQ answer before authentication; clientConnected() only for the authenticated JID.")
ASSUME = ["server without extensions (pure routing core); one victim, one attacker connection",
          "server-side sockets are private to the library: quiescence is judged from the two client sockets over five consecutive idle passes",
          "TLS on the server side is not exercised"]
WIT = ["success_sent", "bound", "routed_with_true_from"]


def run(tier):
    if tier == "thorough":
        cfgs = [dict(name="immediate", config={"controlled": False}, depth=7, dev=3, deadline=1500),
                dict(name="controlled", config={"controlled": True}, depth=8, dev=4, deadline=1800)]
        return bfs_check(PROP, HARNESS, tier, cfgs, RULE, ASSUME, witness_required=WIT)
    cfgs = [dict(name="immediate", config={"controlled": False}, depth=4, dev=2, deadline=300),
            dict(name="controlled", config={"controlled": True}, depth=5, dev=3, deadline=300)]
    return bfs_check(PROP, HARNESS, tier, cfgs, RULE, ASSUME, witness_required=WIT)


def replay(path):
    return bfs_replay(PROP, HARNESS, path)
