from ..enumcheck import enum_check, enum_replay

PROP = "C10"
HARNESS = "c10_cut"
RULE = ("case = sequence of 1..3 connection attempts of a real QXmppClient against the scripted loopback server; every attempt = (script "
        "variant in {SASL+bind, SASL+bind+SM resumable, SASL+bind+SM not resumable, SASL2+bind2 with inline SM}, server accepts or refuses "
        "a resumption request, cut point in {after accept, after first features, after SASL success, after post-auth features, after the "
        "resume answer, after the bind result, after <enabled/>, after the session is established and a request was issued}, loss kind in "
        "{RST, FIN, see-other-host stream error pointing back at the harness (the client reconnects by itself), the same followed by "
        "</stream:stream> in one write}); "
        "all attempts but the last are cut, the last runs to completion; the full product is enumerated (quick: FIN at three and redirects at "
        "four cut points, not in the first of three attempts; thorough: every loss kind everywhere). A redirect that the client does not "
        "follow counts as a plain loss; after a followed redirect no session may be reported on the fresh connection. Oracle after each cut: Disconnected state, not "
        "connected, not authenticated, no connected() before the last negotiation element; outstanding requests complete (error) unless "
        "the session was resumable; every following attempt starts with a fresh header and replays the negotiation; on establishment: "
        "exactly one connected(), state Connected, streamManagementState consistent with the server's answer, requests of earlier "
        "non-resumed sessions complete. non-trivial = histories with at least one cut")
ASSUME = ["reconnection by QXmppClient::connectToServer(configuration()) (auto-reconnect timer disabled)",
          "legacy session establishment (<session/>) is not part of this enumeration; redirects point back at the same scripted server",
          "disconnected() signal counts are not constrained (the statement does not)"]


def run(tier):
    return enum_check(PROP, HARNESS, tier, "fault_enumeration", RULE, ASSUME,
                      witness=["final_resumed", "final_new_session", "cuts:after-accept", "cuts:after-session-established", "cuts:after-resume-answer",
                               "cuts:after-enabled", "cuts:after-sasl-success", "redirects_followed", "redirects_given_up"])


def replay(path):
    return enum_replay(PROP, HARNESS, path)
