import os
import time

from .. import common as C
from .. import explore
from ..enumcheck import enum_check, enum_replay

PROP = "C15"
HARNESS = "c15_ice"
RULE = ("safety (BFS): two real QXmppIceConnection objects (component 1) on 127.0.0.1 whose datagrams all cross a relay owned by the "
        "explorer; events: deliver the next honest datagram L->R or R->L, inject a forged STUN datagram at L or R out of 1440 variants = "
        "{binding request, success response, error response} x {no MESSAGE-INTEGRITY, HMAC under a wrong key, integrity truncated to 10 "
        "bytes, zeroed integrity} x USE-CANDIDATE y/n x username {correct, wrong, absent} x role attribute {controlling, controlled, none} "
        "x transaction id {fresh, copied from the victim's last request} x source {unknown port, the honest peer's address}, plus the "
        "reserved top bits of the message type set to 1/2/3 for the variants without a valid MAC; injections "
        "happen at every point of the honest exchange (<= 1 per history quick, <= 2 thorough); oracle: the victim's and the peer's "
        "observable state (connected flag, connected() count, pair selections, delivered datagrams) is unchanged by an injection and the "
        "victim emits no datagram because of it (an error response to the attacker would be tolerated); control: the same messages with "
        "valid integrity do have an effect. A second configuration injects every variant (and, thorough, every pair) into agents that have "
        "gathered candidates but not yet received the peer's credentials (pre-answer). liveness (enumeration): role assignment x every subset of the first four transmissions "
        "lost (quick: <= 2 losses) -> both agents connect, host candidates carry the RFC 5245 priority, five payload kinds incl. a "
        "STUN-looking one travel unchanged both ways.")
ASSUME = ["one host candidate pair on loopback; STUN/TURN servers are not configured",
          "observable state = public API + signals + log line 'ICE pair selected' + emitted datagrams (the component's private tables are in a .cpp-local class)",
          "lost datagrams are recovered by the real 500 ms retransmission timer: liveness runs take real time",
          "safety executions finish within the 500 ms pacing interval, so no timer fires inside them"]


def run(tier):
    t0 = time.time()
    bdir = C.build([HARNESS])
    binary = os.path.join(bdir, HARNESS)
    dev = 2 if tier == "thorough" else 1
    findings = []
    runs = []
    for cfg, depth in (({"lControlling": True}, 5), ({"lControlling": True, "preAnswer": True}, 2)):
        r = explore.bfs(binary, cfg, depth, dev, 900 if tier == "thorough" else 300)
        runs.append((cfg, r))
        for k, v in sorted(r["violations"].items()):
            pool = explore.Pool(binary, 1)
            try:
                ok = 0
                for _ in range(2):
                    rep = pool.one({"op": "run", "config": cfg, "history": v["history"]}, timeout=120)
                    if any(x.get("key") == k for x in rep.get("violations") or []):
                        ok += 1
            finally:
                pool.close()
            if ok != 2:
                raise C.InternalError("violation %s did not reproduce (%d/2)" % (k, ok))
            path = C.write_replay(PROP, HARNESS, k, v.get("msg", ""), {"config": cfg, "history": v["history"], "names": v.get("names", [])})
            findings.append(dict(key=k, msg=v.get("msg", "") + " | history: " + " ; ".join(v.get("names", [])), replay=path))
    r, pre = runs[0][1], runs[1][1]
    for w in ("forged_injected", "valid_integrity_has_effect", "both_connected"):
        if r["witness"].get(w, 0) <= 0:
            raise C.InternalError("witness '%s' is zero" % w)
    if pre["witness"].get("pre_answer_injections", 0) <= 0:
        raise C.InternalError("witness 'pre_answer_injections' is zero")
    # liveness enumeration (sharded)
    res = C.run_sharded(binary, ["--tier", tier])
    for shard, rc, err in res["crashed"]:
        raise C.InternalError("liveness shard %d failed: %s" % (shard, err[-800:]))
    by_key = {}
    for v in res["violations"]:
        by_key.setdefault(v["key"], v)
    for key, v in sorted(by_key.items()):
        vio, rc, err = C.run_replay(binary, v["case"], ["--tier", tier])
        vio2, rc, err = C.run_replay(binary, v["case"], ["--tier", tier])
        if not (any(x["key"] == key for x in vio) and any(x["key"] == key for x in vio2)):
            # a timed liveness failure must be confirmed alone before it is called a hang
            raise C.InternalError("liveness violation %s did not reproduce" % key)
        path = C.write_replay(PROP, HARNESS, key, v.get("msg", ""), v["case"])
        findings.append(dict(key=key, msg=v.get("msg", ""), replay=path))
    if res["counters"].get("connected_runs", 0) <= 0 or res["counters"].get("payloads_carried", 0) <= 0:
        raise C.InternalError("liveness part vacuous")
    cov = {
        "states": r["states"] + pre["states"], "transitions": r["transitions"] + pre["transitions"], "traces_validated_against_impl": r["executions"] + pre["executions"] + res["evaluations"],
        "samples": (r["samples"][:3] + res["samples"][:2]) or [{"note": "none"}],
        "evaluations": r["executions"] + pre["executions"] + res["evaluations"], "distinct_nontrivial": r["states"] + pre["states"] + res["nontrivial"], "rule": RULE,
        "exhaustive": r["exhaustive"] and pre["exhaustive"] and not res["timed_out"],
        "safety_pre_answer": dict(completed_depth=pre["completed_depth"], max_deviations=dev, events=pre["events"], witness=pre["witness"], transitions=pre["transitions"]),
        "safety": dict(completed_depth=r["completed_depth"], max_deviations=dev, events=r["events"], witness=r["witness"], outcomes=len(r["outcomes"]),
                       depth_stats=r["depth_stats"], rechecks=r["rechecks"]),
        "liveness": dict(evaluations=res["evaluations"], counters=res["counters"], distinct_outcomes=len(res["outcomes"])),
        "explanation": "BFS over the real ICE components behind a harness-owned UDP relay; liveness by exhaustive loss-subset enumeration in real time",
    }
    return C.conclude(PROP, tier, "model_checking", cov, ASSUME, t0, findings)


def replay(path):
    import json
    doc = json.load(open(path))
    if "history" in doc["case"]:
        return explore.bfs_replay(PROP, HARNESS, path)
    return enum_replay(PROP, HARNESS, path)
