"""Independent SASL oracle written from RFC 5802/7677 (SCRAM), RFC 2831 (DIGEST-MD5), RFC 4616 (PLAIN) and XEP-0484 (HT-*).
Uses only hashlib/hmac/base64; shares no code with qxmpp or Qt."""
import base64
import hashlib
import hmac

HASHES = {"SCRAM-SHA-1": "sha1", "SCRAM-SHA-256": "sha256", "SCRAM-SHA-512": "sha512", "SCRAM-SHA3-512": "sha3_512"}
HT_HASHES = {"HT-SHA-256-NONE": "sha256", "HT-SHA-512-NONE": "sha512", "HT-SHA3-512-NONE": "sha3_512"}


def b64d(s):
    return base64.b64decode(s)


def pbkdf2(hname, password, salt, iterations):
    try:
        return hashlib.pbkdf2_hmac(hname, password, salt, iterations)
    except ValueError:
        # hashlib's OpenSSL binding may not offer sha3 for pbkdf2: plain RFC 8018 loop
        h = lambda k, m: hmac.new(k, m, hname).digest()
        u = h(password, salt + b"\x00\x00\x00\x01")
        out = bytearray(u)
        for _ in range(iterations - 1):
            u = h(password, u)
            out = bytearray(a ^ b for a, b in zip(out, u))
        return bytes(out)


def saslname(user):
    return user.replace("=", "=3D").replace(",", "=2C")


def check_scram(v):
    """Returns None if the client's messages are exactly what RFC 5802 prescribes, else (key, message)."""
    hname = HASHES[v["mech"]]
    user, pw = v["user"], v["password"].encode("utf-8")
    if "error" in v:
        return ("C06/scram-no-client-first", v["error"])
    client_first = b64d(v["client_first"])
    want_bare = ("n=%s,r=%s" % (saslname(user), v["client_nonce"])).encode("utf-8")
    if client_first != b"n,," + want_bare:
        if ("," in user or "=" in user) and client_first == b"n,," + ("n=%s,r=%s" % (user, v["client_nonce"])).encode("utf-8"):
            return ("C06/scram-username-not-escaped", "client-first is %r, RFC 5802 requires %r" % (client_first, b"n,," + want_bare))
        return ("C06/scram-client-first-wrong", "client-first is %r, expected %r" % (client_first, b"n,," + want_bare))
    if v["client_final"] == "(refused)":
        return ("C06/scram-valid-server-first-refused", "the client refused a valid server-first message")
    client_final = b64d(v["client_final"])
    server_first = b64d(v["server_first"])
    fields = dict(x.split(b"=", 1) for x in server_first.split(b","))
    salted = pbkdf2(hname, pw, b64d(fields[b"s"]), int(fields[b"i"]))
    ck = hmac.new(salted, b"Client Key", hname).digest()
    sk = hashlib.new(hname, ck).digest()
    cfwp = b"c=biws,r=" + fields[b"r"]
    auth = client_first[3:] + b"," + server_first + b"," + cfwp
    sig = hmac.new(sk, auth, hname).digest()
    proof = bytes(a ^ b for a, b in zip(ck, sig))
    want = cfwp + b",p=" + base64.b64encode(proof)
    if client_final != want:
        return ("C06/scram-client-final-wrong", "client-final is %r, RFC 5802 value is %r" % (client_final[:120], want[:120]))
    return None


def parse_digest(msg):
    """RFC 2831 tolerant reader: key=token | key="quoted-string" (with backslash escapes), comma separated."""
    out, i, n = {}, 0, len(msg)
    while i < n:
        while i < n and msg[i] in " ,\t\r\n":
            i += 1
        j = msg.find("=", i)
        if j < 0:
            break
        key = msg[i:j].strip()
        i = j + 1
        if i < n and msg[i] == '"':
            i += 1
            val = []
            while i < n and msg[i] != '"':
                if msg[i] == "\\" and i + 1 < n:
                    i += 1
                val.append(msg[i])
                i += 1
            i += 1
            out[key] = "".join(val)
        else:
            j = msg.find(",", i)
            if j < 0:
                j = n
            out[key] = msg[i:j].strip()
            i = j
    return out


def check_digest(v):
    if v["response"] == "(refused)":
        return ("C06/digest-valid-challenge-refused", "the client refused a valid DIGEST-MD5 challenge")
    raw = b64d(v["response"]).decode("utf-8")
    f = parse_digest(raw)
    user, realm, pw = v["user"], v["realm"] or "", v["password"]
    md5 = lambda b: hashlib.md5(b).digest()
    hexd = lambda b: hashlib.md5(b).hexdigest().encode()
    a1 = md5(("%s:%s:%s" % (user, realm, pw)).encode("utf-8")) + (":%s:%s" % (v["nonce"], v["cnonce"])).encode()
    a2 = b"AUTHENTICATE:xmpp/example.org"
    resp = hashlib.md5(hexd(a1) + (":%s:00000001:%s:auth:" % (v["nonce"], v["cnonce"])).encode() + hexd(a2)).hexdigest()
    want = {"username": user, "nonce": v["nonce"], "cnonce": v["cnonce"], "nc": "00000001", "qop": "auth", "digest-uri": "xmpp/example.org", "response": resp}
    if v["realm"]:
        want["realm"] = realm
    for k, val in want.items():
        if f.get(k) != val:
            return ("C06/digest-field-wrong:" + k, "field %s is %r, RFC 2831 value is %r (message %r)" % (k, f.get(k), val, raw[:300]))
    if f.get("charset", "").lower() != "utf-8":
        return ("C06/digest-field-wrong:charset", "charset=utf-8 missing although UTF-8 is used: %r" % raw[:200])
    return None


def check_plain(v):
    want = b"\x00" + v["user"].encode("utf-8") + b"\x00" + v["password"].encode("utf-8")
    got = b64d(v["response"]) if v["response"] != "(refused)" else None
    if got != want:
        return ("C06/plain-response-wrong", "PLAIN response is %r, RFC 4616 value %r" % (got, want))
    return None


def check_ht(v):
    hname = HT_HASHES[v["mech"]]
    want = v["user"].encode("utf-8") + b"\x00" + hmac.new(v["token"].encode("utf-8"), b"Initiator", hname).digest()
    got = b64d(v["response"]) if v["response"] != "(refused)" else None
    if got != want:
        return ("C06/ht-response-wrong", "HT response is %r, XEP-0484 value %r" % (got, want))
    return None


def check(v):
    k = v.get("kind")
    if k == "scram":
        return check_scram(v)
    if k == "digest":
        return check_digest(v)
    if k == "plain":
        return check_plain(v)
    if k == "ht":
        return check_ht(v)
    return ("C06/unknown-vector", repr(v)[:200])
