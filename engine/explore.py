"""Explicit-state breadth-first search over harness workers (DESIGN §2.5, Appendix A.1).

A state is the event history that reaches it; every transition re-executes the whole history on fresh real
objects inside a worker process. States are de-duplicated on the canonical string the worker returns; a state is
re-expanded only when it is reached with a smaller deviation cost at the same or smaller depth (Pareto rule).
"""
import json
import os
import queue
import subprocess
import threading
import time

from . import common as C


class Worker:
    """One harness process speaking the JSON-lines protocol. A shared watchdog kills it when a request overruns."""
    _watch_lock = threading.Lock()
    _watched = set()
    _watchdog_started = False

    def __init__(self, binary, idx, extra_args=()):
        self.binary = binary
        self.idx = idx
        self.extra_args = list(extra_args)
        self.proc = None
        self.deadline = None
        self.timed_out = False
        self.start()
        with Worker._watch_lock:
            Worker._watched.add(self)
            if not Worker._watchdog_started:
                Worker._watchdog_started = True
                threading.Thread(target=Worker._watchdog, daemon=True).start()

    @staticmethod
    def _watchdog():
        while True:
            time.sleep(0.25)
            now = time.time()
            with Worker._watch_lock:
                ws = list(Worker._watched)
            for w in ws:
                d = w.deadline
                if d is not None and now > d:
                    w.timed_out = True
                    w.deadline = None
                    try:
                        w.proc.kill()
                    except Exception:
                        pass

    def start(self):
        env = C.harness_env()
        env["VERIF_WORKER"] = str(self.idx)
        self.stderr_path = "/tmp/verif_worker_%d_%d.err" % (os.getpid(), self.idx)
        self.stderr_file = open(self.stderr_path, "wb")
        self.proc = subprocess.Popen([self.binary, "--worker", str(self.idx)] + self.extra_args, stdin=subprocess.PIPE,
                                     stdout=subprocess.PIPE, stderr=self.stderr_file, env=env)

    def _stderr_tail(self):
        try:
            self.stderr_file.flush()
            with open(self.stderr_path, "rb") as f:
                f.seek(0, 2)
                n = f.tell()
                f.seek(max(0, n - 6000))
                return f.read().decode("utf-8", "replace")
        except Exception:
            return ""

    def request(self, obj, timeout=60):
        """Returns the reply dict, or {'crashed': True, 'stderr': ...} if the worker died / hung."""
        self.timed_out = False
        try:
            self.proc.stdin.write((json.dumps(obj) + "\n").encode())
            self.proc.stdin.flush()
        except (BrokenPipeError, OSError):
            return self._crashed()
        self.deadline = time.time() + timeout
        try:
            while True:
                line = self.proc.stdout.readline()
                if not line:
                    break
                if line.startswith(b"{"):
                    try:
                        v = json.loads(line.decode("utf-8", "replace"))
                    except ValueError:
                        continue
                    self.deadline = None
                    return v
        except Exception:
            pass
        self.deadline = None
        r = self._crashed()
        r["hung"] = self.timed_out
        return r

    def _crashed(self):
        try:
            self.proc.kill()
        except Exception:
            pass
        try:
            self.proc.wait(timeout=5)
        except Exception:
            pass
        err = self._stderr_tail()
        rc = self.proc.returncode
        try:
            self.stderr_file.close()
        except Exception:
            pass
        self.start()
        return {"crashed": True, "rc": rc, "stderr": err}

    def close(self):
        with Worker._watch_lock:
            Worker._watched.discard(self)
        try:
            self.proc.stdin.write(b'{"op":"quit"}\n')
            self.proc.stdin.flush()
            self.proc.wait(timeout=3)
        except Exception:
            try:
                self.proc.kill()
            except Exception:
                pass
        try:
            self.stderr_file.close()
            os.unlink(self.stderr_path)
        except Exception:
            pass


class Pool:
    def __init__(self, binary, n, extra_args=()):
        self.workers = [Worker(binary, i, extra_args) for i in range(n)]

    def map(self, requests, timeout=60):
        """requests: list of dicts; returns list of replies in order (parallel over workers)."""
        out = [None] * len(requests)
        q = queue.Queue()
        for i, r in enumerate(requests):
            q.put((i, r))

        def run(w):
            while True:
                try:
                    i, r = q.get_nowait()
                except queue.Empty:
                    return
                out[i] = w.request(r, timeout)
        ts = [threading.Thread(target=run, args=(w,), daemon=True) for w in self.workers]
        for t in ts:
            t.start()
        for t in ts:
            t.join()
        return out

    def one(self, request, widx=0, timeout=60):
        return self.workers[widx % len(self.workers)].request(request, timeout)

    def close(self):
        for w in self.workers:
            w.close()


def bfs(binary, config, max_depth, max_dev, deadline_s, nworkers=None, extra_args=(), recheck_every=97,
        per_request_timeout=60, dedup=True, crash_key="harness-crash"):
    """Runs the search. Returns a dict with states/transitions/executions/outcomes/violations/..."""
    nworkers = nworkers or C.NPROC
    pool = Pool(binary, nworkers, extra_args)
    t0 = time.time()
    try:
        desc = pool.one({"op": "describe", "config": config})
        if "events" not in desc:
            raise C.InternalError("describe failed: %r" % (desc,))
        events = {e["id"]: e for e in desc["events"]}
        root = pool.one({"op": "run", "config": config, "history": []})
        if root.get("crashed") or "canon" not in root:
            raise C.InternalError("initial state failed: %r" % (root,))
        seen = {}          # canon -> list of (depth, dev) Pareto points
        seen[root["canon"]] = [(0, 0)]
        frontier = [([], 0, root["enabled"])]
        res = dict(states=1, transitions=0, executions=1, outcomes=set([root.get("outcome", "")]), violations={},
                   witness={}, completed_depth=0, exhaustive=False, frontier_empty=False, samples=[], deadline_hit=False,
                   rechecks=0, max_depth=max_depth, max_dev=max_dev, events=len(events), depth_stats=[])
        _acc_witness(res, root)
        _acc_violations(res, root, [], events)
        depth = 0
        counter = 0
        while frontier and depth < max_depth:
            depth += 1
            reqs = []
            for hist, dev, enabled in frontier:
                for ev in enabled:
                    cost = events[ev].get("deviation", 0)
                    if dev + cost > max_dev:
                        continue
                    reqs.append((hist + [ev], dev + cost))
            nxt = []
            # process in chunks so that the deadline is honoured
            CH = nworkers * 32
            aborted = False
            for off in range(0, len(reqs), CH):
                if time.time() - t0 > deadline_s:
                    aborted = True
                    break
                chunk = reqs[off:off + CH]
                replies = pool.map([{"op": "run", "config": config, "history": h} for h, _ in chunk], per_request_timeout)
                for (h, dv), rep in zip(chunk, replies):
                    res["transitions"] += 1
                    res["executions"] += 1
                    counter += 1
                    if rep.get("crashed"):
                        # re-run once alone with a longer limit before calling it a crash/hang
                        rep2 = pool.one({"op": "run", "config": config, "history": h}, widx=counter, timeout=per_request_timeout * 3)
                        if rep2.get("crashed"):
                            key = ("hang" if rep.get("hung") else crash_key)
                            res["violations"].setdefault(key, dict(key=key, history=h, msg="worker %s on this history; stderr tail: %s" % (
                                "hung" if rep.get("hung") else "died (rc=%s)" % rep.get("rc"), rep2.get("stderr", "")[-1500:])))
                            continue
                        rep = rep2
                    if "canon" not in rep:
                        raise C.InternalError("bad reply for %r: %r" % (h, rep))
                    _acc_witness(res, rep)
                    _acc_violations(res, rep, h, events)
                    res["outcomes"].add(rep.get("outcome", ""))
                    if len(res["samples"]) < 6 and len(h) == min(max_depth, 3):
                        res["samples"].append({"history": [events[e]["name"] for e in h], "outcome": rep.get("outcome", ""),
                                               "obs": rep.get("obs", [])[-6:]})
                    if recheck_every and counter % recheck_every == 0:
                        rep3 = pool.one({"op": "run", "config": config, "history": h}, widx=counter + 1)
                        res["rechecks"] += 1
                        res["executions"] += 1
                        if rep3.get("canon") != rep.get("canon"):
                            raise C.InternalError("nondeterministic replay of %r:\n%s\n--- vs ---\n%s" % (
                                [events[e]["name"] for e in h], rep.get("canon"), rep3.get("canon")))
                    canon = rep["canon"]
                    pts = seen.get(canon)
                    if dedup and pts is not None and any(d <= depth and c <= dv for d, c in pts):
                        continue
                    if pts is None:
                        res["states"] += 1
                        seen[canon] = [(depth, dv)]
                    else:
                        pts.append((depth, dv))
                    if rep.get("enabled"):
                        nxt.append((h, dv, rep["enabled"]))
            res["depth_stats"].append(dict(depth=depth, requests=len(reqs), new_states=len(nxt)))
            if aborted:
                res["deadline_hit"] = True
                break
            res["completed_depth"] = depth
            frontier = nxt
        if not frontier:
            res["frontier_empty"] = True
        res["exhaustive"] = (not res["deadline_hit"]) and (res["completed_depth"] >= max_depth or res["frontier_empty"])
        res["wall_s"] = time.time() - t0
        res["event_names"] = {str(k): v["name"] for k, v in events.items()}
        return res
    finally:
        pool.close()


def _acc_witness(res, rep):
    for k, v in (rep.get("witness") or {}).items():
        res["witness"][k] = res["witness"].get(k, 0) + (v if isinstance(v, (int, float)) else 1)


def _acc_violations(res, rep, hist, events):
    for v in rep.get("violations") or []:
        k = v.get("key", "?")
        if k not in res["violations"]:   # BFS order => first = shortest
            res["violations"][k] = dict(key=k, msg=v.get("msg", ""), history=list(hist),
                                        names=[events[e]["name"] for e in hist], obs=rep.get("obs", []))


def bfs_check(prop, harness, tier, configs, rule, assumptions, witness_required=(), flavour="asan", extra_args=(),
              crosscheck_depth=None, per_request_timeout=60, extra_pass=None):
    """configs: list of dict(name, config, depth, dev, deadline). Runs one BFS per config and concludes."""
    t0 = time.time()
    bdir = C.build([harness], flavour)
    binary = os.path.join(bdir, harness)
    total = dict(states=0, transitions=0, executions=0, outcomes=set(), witness={}, samples=[], per_config=[])
    findings = []
    all_exhaustive = True
    for cfg in configs:
        r = bfs(binary, cfg["config"], cfg["depth"], cfg.get("dev", 99), cfg.get("deadline", 600), extra_args=extra_args,
                per_request_timeout=per_request_timeout)
        total["states"] += r["states"]
        total["transitions"] += r["transitions"]
        total["executions"] += r["executions"]
        total["outcomes"].update((cfg["name"], o) for o in r["outcomes"])
        for k, v in r["witness"].items():
            total["witness"][k] = total["witness"].get(k, 0) + v
        for s in r["samples"][:3]:
            s = dict(s)
            s["config"] = cfg["name"]
            total["samples"].append(s)
        pc = dict(name=cfg["name"], states=r["states"], transitions=r["transitions"], completed_depth=r["completed_depth"],
                  max_depth=cfg["depth"], max_deviations=cfg.get("dev", 99), exhaustive=r["exhaustive"],
                  frontier_empty=r["frontier_empty"], rechecks=r["rechecks"], wall_s=round(r["wall_s"], 1),
                  outcomes=len(r["outcomes"]), depth_stats=r["depth_stats"])
        # optional soundness cross-check of the dedup: same verdict keys without dedup at a smaller depth
        if crosscheck_depth and cfg.get("crosscheck", True):
            d = min(crosscheck_depth, cfg["depth"])
            r2 = bfs(binary, cfg["config"], d, cfg.get("dev", 99), cfg.get("deadline", 600) / 2, extra_args=extra_args,
                     dedup=False, recheck_every=0, per_request_timeout=per_request_timeout)
            r3 = bfs(binary, cfg["config"], d, cfg.get("dev", 99), cfg.get("deadline", 600) / 2, extra_args=extra_args,
                     dedup=True, recheck_every=0, per_request_timeout=per_request_timeout)
            same = set(r2["violations"]) == set(r3["violations"]) and r2["states"] == r3["states"]
            pc["dedup_crosscheck"] = dict(depth=d, equal=same, states=r3["states"], transitions_no_dedup=r2["transitions"],
                                          transitions_dedup=r3["transitions"])
            if not same and not (r2["deadline_hit"] or r3["deadline_hit"]):
                raise C.InternalError("dedup cross-check failed for %s: %r vs %r" % (cfg["name"], sorted(r2["violations"]), sorted(r3["violations"])))
        total["per_config"].append(pc)
        all_exhaustive = all_exhaustive and r["exhaustive"]
        for k, v in sorted(r["violations"].items()):
            # replay discipline: must reproduce twice in fresh workers
            pool = Pool(binary, 2, extra_args)
            try:
                ok = 0
                for i in range(2):
                    rep = pool.one({"op": "run", "config": cfg["config"], "history": v["history"]}, widx=i, timeout=per_request_timeout * 3)
                    if rep.get("crashed") and k in ("harness-crash", "hang"):
                        ok += 1
                    elif any(x.get("key") == k for x in rep.get("violations") or []):
                        ok += 1
            finally:
                pool.close()
            if ok != 2:
                raise C.InternalError("violation %s did not reproduce deterministically (%d/2) on %r" % (k, ok, v.get("names")))
            key = k if k.startswith(prop + "/") else "%s/%s" % (prop, k)
            path = C.write_replay(prop, harness, key, v.get("msg", ""), {"config": cfg["config"], "history": v["history"],
                                                                         "names": v.get("names", []), "config_name": cfg["name"]},
                                  extra={"obs": v.get("obs", [])[-40:]})
            findings.append(dict(key=key, msg="%s | history: %s" % (v.get("msg", ""), " ; ".join(v.get("names", []))), replay=path))
    for w in witness_required:
        if total["witness"].get(w, 0) <= 0:
            raise C.InternalError("witness counter '%s' is zero: the exploration was vacuous" % w)
    cov = {
        "states": total["states"],
        "transitions": total["transitions"],
        "traces_validated_against_impl": total["executions"],
        "samples": total["samples"][:8] or [{"note": "no sample at the sampling depth"}],
        "evaluations": total["executions"],
        "distinct_nontrivial": total["states"],
        "rule": rule,
        "exhaustive": all_exhaustive,
        "distinct_outcomes": len(total["outcomes"]),
        "witness": total["witness"],
        "per_config": total["per_config"],
        "explanation": ("explicit-state BFS over the real implementation: every transition replays its whole event history on fresh "
                        "objects; there is no separate model, so every explored trace is an execution of the code under test"),
    }
    if not all_exhaustive:
        cov["note"] = "a deadline or depth bound cut the search: see per_config[*].completed_depth for what was fully covered"
    if extra_pass:
        extra_pass(findings, cov)
    return C.conclude(prop, tier, "model_checking", cov, assumptions, t0, findings)


def bfs_replay(prop, harness, path, flavour="asan", extra_args=()):
    doc = json.load(open(path))
    bdir = C.build([harness], flavour)
    pool = Pool(os.path.join(bdir, harness), 1, extra_args)
    try:
        rep = pool.one({"op": "run", "config": doc["case"]["config"], "history": doc["case"]["history"], "verbose": True}, timeout=300)
    finally:
        pool.close()
    for line in rep.get("obs", []):
        C.log("  obs:", line)
    if rep.get("crashed"):
        C.log(rep.get("stderr", ""))
        print("VIOLATION property=%s replay=%s" % (prop, path))
        return 1
    vio = rep.get("violations") or []
    for v in vio:
        C.log("violation", v.get("key"), v.get("msg"))
    if vio:
        print("VIOLATION property=%s replay=%s" % (prop, path))
        return 1
    print("replay: no violation")
    return 0
