"""Shared plumbing for the qxmpp checks: build, sharded runs, known findings, evidence, verdicts."""
import fcntl
import hashlib
import json
import os
import re
import subprocess
import sys
import time

VERIF = os.path.dirname(os.path.dirname(os.path.abspath(__file__)))
REPO = os.environ.get("VERIF_REPO", "/repo")
NPROC = int(os.environ.get("VERIF_JOBS", str(os.cpu_count() or 16)))
SEED = int(os.environ.get("VERIF_SEED", "0") or 0)


class InternalError(Exception):
    """Harness/infrastructure failure: never a verdict about qxmpp."""


def log(*a):
    print(*a, file=sys.stderr, flush=True)


# --------------------------------------------------------------------------- build

def build_root():
    if os.path.realpath(REPO) == "/repo":
        return os.path.join(VERIF, "build")
    h = hashlib.sha1(os.path.realpath(REPO).encode()).hexdigest()[:10]
    return os.path.join(VERIF, "build", "alt-" + h)


def build_dir(flavour="asan"):
    return os.path.join(build_root(), flavour)


def tls_dir():
    return os.path.join(VERIF, "build", "tls")


def ensure_tls_material():
    d = tls_dir()
    key, cert = os.path.join(d, "key.pem"), os.path.join(d, "cert.pem")
    if os.path.exists(key) and os.path.exists(cert):
        return d
    os.makedirs(d, exist_ok=True)
    subprocess.run(
        ["openssl", "req", "-x509", "-newkey", "rsa:2048", "-nodes", "-keyout", key, "-out", cert,
         "-days", "3650", "-subj", "/CN=example.org"],
        check=True, stdout=subprocess.DEVNULL, stderr=subprocess.DEVNULL)
    return d


def build(targets, flavour="asan"):
    """Incremental build of the library (from REPO's working tree) and the given harness targets."""
    bdir = build_dir(flavour)
    os.makedirs(bdir, exist_ok=True)
    lock = open(os.path.join(build_root(), ".lock"), "w")
    fcntl.flock(lock, fcntl.LOCK_EX)
    try:
        t0 = time.time()
        need_configure = not os.path.exists(os.path.join(bdir, "build.ninja"))
        if not need_configure:
            ninja_txt = open(os.path.join(bdir, "build.ninja"), errors="replace").read()
            need_configure = any(t != "all" and ("/" + t + ".dir/") not in ninja_txt for t in targets)
        if need_configure:
            cmd = ["cmake", "-G", "Ninja", "-S", os.path.join(VERIF, "harness"), "-B", bdir,
                   "-DVERIF_REPO=" + os.path.realpath(REPO),
                   "-DVERIF_SANITIZE=" + ("ON" if flavour == "asan" else "OFF")]
            r = subprocess.run(cmd, stdout=subprocess.PIPE, stderr=subprocess.STDOUT, text=True)
            if r.returncode != 0:
                raise InternalError("cmake configure failed:\n" + r.stdout[-4000:])
        r = subprocess.run(["ninja", "-C", bdir] + list(targets), stdout=subprocess.PIPE,
                           stderr=subprocess.STDOUT, text=True)
        if r.returncode != 0:
            raise InternalError("build failed:\n" + "\n".join([l for l in r.stdout.splitlines() if "error" in l or "FAILED" in l][:12])[-3000:])
        log("[build] %s %s ok in %.1fs" % (flavour, " ".join(targets), time.time() - t0))
    finally:
        fcntl.flock(lock, fcntl.LOCK_UN)
        lock.close()
    return bdir


def harness_env():
    env = dict(os.environ)
    env["ASAN_OPTIONS"] = "detect_leaks=0:abort_on_error=0:halt_on_error=1:exitcode=97:allocator_may_return_null=1"
    env["UBSAN_OPTIONS"] = "print_stacktrace=1:halt_on_error=1:exitcode=98"
    env["QT_LOGGING_RULES"] = "*.debug=false;qt.network.ssl.warning=false"
    env["VERIF_TLS_DIR"] = tls_dir()
    return env


# --------------------------------------------------------------------------- sharded enumeration

def run_sharded(binary, args, nshards=None, timeout=None, env_extra=None):
    """Runs `binary args --shard i/N` for all i; merges the JSON-lines outputs.

    Returns dict(evaluations, nontrivial, counters, samples, outcomes(set), violations[list of dict],
    crashed[list of (shard, rc, stderr tail)])."""
    nshards = nshards or NPROC
    env = harness_env()
    if env_extra:
        env.update(env_extra)
    procs = []
    for i in range(nshards):
        p = subprocess.Popen([binary] + list(args) + ["--shard", "%d/%d" % (i, nshards)],
                             stdout=subprocess.PIPE, stderr=subprocess.PIPE, env=env)
        procs.append(p)
    merged = dict(evaluations=0, nontrivial=0, counters={}, samples=[], outcomes=set(), violations=[],
                  violation_keys={}, crashed=[], timed_out=False)
    deadline = time.time() + timeout if timeout else None
    # drain all shards concurrently: a shard blocked on a full stdout pipe would look like a hang
    import threading
    outputs = [None] * len(procs)

    def drain(i, p):
        try:
            out, err = p.communicate(timeout=max(1, deadline - time.time()) if deadline else None)
            outputs[i] = (out, err, False)
        except subprocess.TimeoutExpired:
            p.kill()
            out, err = p.communicate()
            outputs[i] = (out, err, True)
    threads = [threading.Thread(target=drain, args=(i, p)) for i, p in enumerate(procs)]
    for t in threads:
        t.start()
    for t in threads:
        t.join()
    for i, p in enumerate(procs):
        out, err, to = outputs[i]
        if to:
            merged["timed_out"] = True
        got_summary = False
        for line in out.decode("utf-8", "replace").splitlines():
            line = line.strip()
            if not line.startswith("{"):
                continue
            try:
                o = json.loads(line)
            except ValueError:
                continue
            if o.get("type") == "violation":
                merged["violations"].append(o)
            elif o.get("type") not in (None, "summary"):
                merged.setdefault("other", []).append(o)
            elif o.get("type") == "summary":
                got_summary = True
                merged["evaluations"] += o.get("evaluations", 0)
                merged["nontrivial"] += o.get("nontrivial", 0)
                for k, v in o.get("counters", {}).items():
                    merged["counters"][k] = merged["counters"].get(k, 0) + v
                for k, v in o.get("violation_keys", {}).items():
                    merged["violation_keys"][k] = merged["violation_keys"].get(k, 0) + v
                for s in o.get("samples", []):
                    if len(merged["samples"]) < 8:
                        merged["samples"].append(s)
                merged["outcomes"].update(o.get("outcomes", []))
        if p.returncode != 0 or not got_summary:
            merged["crashed"].append((i, p.returncode, err.decode("utf-8", "replace")[-3000:]))
    return merged


def run_replay(binary, case, extra_args=(), timeout=600):
    """Runs one case in a fresh process; returns (violations, rc, stderr)."""
    p = subprocess.run([binary] + list(extra_args) + ["--replay", json.dumps(case)], stdout=subprocess.PIPE,
                       stderr=subprocess.PIPE, env=harness_env(), timeout=timeout)
    vio = []
    for line in p.stdout.decode("utf-8", "replace").splitlines():
        if line.startswith("{"):
            try:
                o = json.loads(line)
            except ValueError:
                continue
            if o.get("type") == "violation":
                vio.append(o)
    return vio, p.returncode, p.stderr.decode("utf-8", "replace")


# --------------------------------------------------------------------------- known findings

def load_known():
    path = os.path.join(VERIF, "known_findings.json")
    if not os.path.exists(path):
        return []
    with open(path) as f:
        return json.load(f).get("findings", [])


def known_map(prop):
    return {e["key"]: e for e in load_known() if e.get("property") == prop and e.get("status") == "known"}


# --------------------------------------------------------------------------- verdict + evidence

def safe_name(key):
    return re.sub(r"[^A-Za-z0-9_.+-]", "_", key)[:120]


def write_replay(prop, harness, key, msg, case, extra=None):
    d = os.path.join(VERIF, "replays")
    os.makedirs(d, exist_ok=True)
    path = os.path.join(d, "%s-%s.json" % (prop, safe_name(key.split("/", 1)[-1])))
    doc = {"property": prop, "harness": harness, "key": key, "msg": msg, "case": case}
    if extra:
        doc.update(extra)
    with open(path, "w") as f:
        json.dump(doc, f, indent=1, ensure_ascii=False)
    return path


def write_evidence(prop, tier, level, coverage, assumptions, wall_s, violations):
    d = os.path.join(VERIF, "evidence")
    os.makedirs(d, exist_ok=True)
    doc = {
        "property_id": prop,
        "tier": tier,
        "seed": SEED,
        "level": level,
        "coverage": coverage,
        "assumptions": assumptions,
        "wall_s": round(wall_s, 2),
        "violations": violations,
    }
    tmp = os.path.join(d, prop + ".json.tmp")
    with open(tmp, "w") as f:
        json.dump(doc, f, indent=1, ensure_ascii=False)
    os.replace(tmp, os.path.join(d, prop + ".json"))


def conclude(prop, tier, level, coverage, assumptions, t0, findings):
    """findings: list of dict(key,msg,replay). Applies the known-findings policy, writes the evidence,
    prints KNOWN-FINDING / VIOLATION lines and returns the exit code."""
    known = known_map(prop)
    new = []
    hit = []
    seen = set()
    for f in findings:
        if f["key"] in seen:
            continue
        seen.add(f["key"])
        if f["key"] in known:
            hit.append(f["key"])
            print("KNOWN-FINDING: property=%s %s %s" % (prop, f["key"], known[f["key"]].get("what", "")))
        else:
            new.append(f)
    coverage = dict(coverage)
    coverage["known_findings_hit"] = sorted(hit)
    coverage["new_violation_keys"] = sorted(f["key"] for f in new)
    write_evidence(prop, tier, level, coverage, assumptions, time.time() - t0, len(new))
    for f in new:
        log("violation %s: %s" % (f["key"], f.get("msg", "")[:1500]))
        print("VIOLATION property=%s replay=%s" % (prop, f["replay"]))
    sys.stdout.flush()
    return 1 if new else 0
